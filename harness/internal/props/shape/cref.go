package shape

import (
	"verifharness/internal/corpus"
	"verifharness/internal/hbref"
)

// refClusters shapes the (buffer level) case with the C HarfBuzz reference and
// returns the cluster of every output glyph. Only unmodified corpus fonts ever
// reach the C library. It is used as the predicted-behaviour model of the open
// finding "clusters not monotone at cluster level MonotoneCharacters, exactly as
// upstream HarfBuzz 6.0.0".
func refClusters(c *Case) ([]int, bool) {
	ref, ok := corpus.ParseRef(c.Face)
	if !ok {
		return nil, false
	}
	blob := hbref.NewBlob(ref.File.Bytes())
	if blob == nil {
		return nil, false
	}
	defer blob.Destroy()
	face := blob.NewFace(ref.Index)
	defer face.Destroy()
	font := face.NewFont()
	defer font.Destroy()
	if len(c.Vars) > 0 {
		vs := make([]hbref.Variation, len(c.Vars))
		for i, v := range c.Vars {
			vs[i] = hbref.Variation{Tag: v.Tag, Value: v.Value}
		}
		font.SetVariations(vs)
	}
	buf := hbref.NewBuffer()
	defer buf.Destroy()
	dir := 4 + int(c.Dir&1) // di.Direction -> hb_direction_t
	if c.Dir&2 != 0 {
		dir = 6 + int(c.Dir&1)
	}
	// Go flag bits -> C numbering (C has VERIFY at 0x20)
	flags := int(c.Flags & 0x1F)
	if c.Flags&32 != 0 {
		flags |= 0x40
	}
	if c.Flags&64 != 0 {
		flags |= 0x80
	}
	in := &hbref.Input{Text: c.Text, ItemOffset: c.RunStart, ItemLength: c.RunEnd - c.RunStart, Direction: dir,
		Script: c.Script, Language: c.Lang, Flags: flags, ClusterLevel: int(c.ClusterLevel)}
	for _, f := range c.Features {
		hf := hbref.Feature{Tag: f.Tag, Value: f.Value, Start: 0, End: hbref.FeatureGlobalEnd}
		if f.Start != 0 || f.End != 0 {
			hf.Start, hf.End = uint32(f.Start), uint32(f.End)
		}
		in.Features = append(in.Features, hf)
	}
	res := buf.Shape(font, in)
	if !res.OK {
		return nil, false
	}
	out := make([]int, len(res.Glyphs))
	for i, g := range res.Glyphs {
		out[i] = int(g.Cluster)
	}
	return out, true
}
