// Package shape holds the shared workload for the shaping properties C01
// (totality + cluster accounting) and C12 (geometry self-consistency).
package shape

import (
	"bytes"
	"sort"
	"sync"
	"unicode"

	"github.com/go-text/typesetting/di"
	"github.com/go-text/typesetting/font"
	ot "github.com/go-text/typesetting/font/opentype"
	"github.com/go-text/typesetting/font/opentype/tables"
	"github.com/go-text/typesetting/harfbuzz"
	"github.com/go-text/typesetting/language"
	"github.com/go-text/typesetting/shaping"
	"golang.org/x/image/math/fixed"

	"verifharness/internal/corpus"
	"verifharness/internal/gen"
)

// Feat is a JSON-able feature setting.
type Feat struct {
	Tag   uint32 `json:"tag"`
	Value uint32 `json:"value"`
	Start int    `json:"start,omitempty"`
	End   int    `json:"end,omitempty"` // 0 with Start 0 = global
}

// Var is one design-space variation coordinate.
type Var struct {
	Tag   uint32  `json:"tag"`
	Value float32 `json:"value"`
}

// Case is a self-contained shaping call.
type Case struct {
	Face     string `json:"face"` // corpus reference "id#index"
	Text     []rune `json:"text"`
	RunStart int    `json:"run_start"`
	RunEnd   int    `json:"run_end"`
	Dir      uint8  `json:"dir"` // di.Direction value
	Script   uint32 `json:"script"`
	Lang     string `json:"lang"`
	Size     int    `json:"size"` // 26.6
	Features []Feat `json:"features,omitempty"`
	Vars     []Var  `json:"variations,omitempty"`
	// buffer level only
	Buffer       bool   `json:"buffer_level"`
	Flags        uint16 `json:"flags,omitempty"`
	ClusterLevel uint8  `json:"cluster_level,omitempty"`
	// AltClusters != 0 (whole-text buffer cases only): the text is shaped a second time
	// through Buffer.AddRune with cluster values of the caller's choosing: 1 the rune
	// indices, 2 a strictly increasing relabeling (1000000+5i), 3 all equal, 4 decreasing
	AltClusters uint8  `json:"alt_clusters,omitempty"`
	Source      string `json:"source"`
}

func (c *Case) direction() di.Direction { return di.Direction(c.Dir) }

// faceInfo caches per-face data used by the generators.
type faceInfo struct {
	ref      corpus.FaceRef
	mapped   []rune
	features []uint32
	axes     []font.Variation // default values
	axesMin  []float32
	axesMax  []float32
}

var (
	infoMu sync.Mutex
	infos  = map[string]*faceInfo{}
)

func getInfo(ref corpus.FaceRef) *faceInfo {
	key := ref.String()
	infoMu.Lock()
	fi := infos[key]
	infoMu.Unlock()
	if fi != nil {
		return fi
	}
	fi = &faceInfo{ref: ref}
	func() {
		defer func() { recover() }()
		ft := ref.Font()
		it := ft.Cmap.Iter()
		n := 0
		for it.Next() && n < 60000 {
			r, _ := it.Char()
			fi.mapped = append(fi.mapped, r)
			n++
		}
		sort.Slice(fi.mapped, func(i, j int) bool { return fi.mapped[i] < fi.mapped[j] })
		seen := map[uint32]bool{}
		for _, f := range ft.GSUB.Features {
			seen[uint32(f.Tag)] = true
		}
		for _, f := range ft.GPOS.Features {
			seen[uint32(f.Tag)] = true
		}
		for t := range seen {
			fi.features = append(fi.features, t)
		}
		sort.Slice(fi.features, func(i, j int) bool { return fi.features[i] < fi.features[j] })
		if lds, err := ot.NewLoaders(bytes.NewReader(ref.File.Bytes())); err == nil && ref.Index < len(lds) {
			if raw, err := lds[ref.Index].RawTable(ot.MustNewTag("fvar")); err == nil {
				if fv, _, err := tables.ParseFvar(raw); err == nil {
					for _, ax := range fv.FvarRecords.Axis {
						fi.axes = append(fi.axes, font.Variation{Tag: ax.Tag, Value: float32(ax.Default)})
						fi.axesMin = append(fi.axesMin, float32(ax.Minimum))
						fi.axesMax = append(fi.axesMax, float32(ax.Maximum))
					}
				}
			}
		}
	}()
	infoMu.Lock()
	infos[key] = fi
	infoMu.Unlock()
	return fi
}

var commonFeatures = []string{"liga", "kern", "frac", "smcp", "ss01", "vert", "calt", "dlig", "tnum", "mark", "mkmk", "init", "rlig", "ccmp", "locl", "aalt"}

var langs = []string{"", "en", "ar", "tr", "zh-hans", "fa", "ur", "hi", "sr", "ja", "x-foo", "de-CH-1996"}

var sizes = []int{1 << 6, 480, 12 << 6, 16<<6 + 1, 72 << 6, 1000 << 6, 4096 << 6, 10 << 6, 33}

// guessScript returns the script of the first rune with a specific script.
func guessScript(text []rune) language.Script {
	for _, r := range text {
		s := language.LookupScript(r)
		if s != language.Common && s != language.Inherited && s != language.Unknown {
			return s
		}
	}
	return language.Common
}

var allDirs = []di.Direction{di.DirectionLTR, di.DirectionRTL, di.DirectionTTB, di.DirectionBTT}

// GenCase builds case number idx: face = idx mod #faces, then PRNG choices.
func GenCase(seed int64, idx int, faces []corpus.FaceRef, utils string) *Case {
	ref := faces[idx%len(faces)]
	r := gen.New(seed, "shape/case", idx)
	fi := getInfo(ref)
	c := &Case{Face: ref.String()}
	n := 1 + r.Intn(24)
	if r.Chance(1, 10) {
		n = 40 + r.Intn(200)
	}
	src := r.Intn(10)
	up := gen.UpstreamTexts(utils)[baseName(ref.File.ID)]
	switch {
	case src <= 2 && len(fi.mapped) > 0:
		c.Text, c.Source = gen.CmapLocalText(r, fi.mapped, n), "cmap-local"
	case src <= 4:
		c.Text, c.Source = gen.ScriptText(r, r.Intn(len(gen.Alphabets)), n), "script-alphabet"
	case src == 5:
		c.Text, c.Source = gen.SpecialText(r, n), "special-classes"
	case src == 6:
		c.Text, c.Source = gen.RealSnippet(r, utils, n), "real-text"
	case len(up) > 0:
		t := gen.Pick(r, up)
		if r.Chance(2, 3) {
			t = gen.MutateText(r, t, gen.Pick(r, up), fi.mapped)
		}
		c.Text, c.Source = append([]rune(nil), t...), "upstream-trigger"
	case len(fi.mapped) > 0:
		// mix of cmap-local and marks/joiners
		t := gen.CmapLocalText(r, fi.mapped, n)
		c.Text, c.Source = gen.MutateText(r, t, gen.SpecialText(r, 3), fi.mapped), "cmap-local-mutated"
	default:
		c.Text, c.Source = gen.ScriptText(r, r.Intn(len(gen.Alphabets)), n), "script-alphabet"
	}
	if len(c.Text) == 0 {
		c.Text = []rune{'a'}
	}
	L := len(c.Text)
	// bounds: whole text, inside, at the edges, (rarely) outside / swapped
	switch r.Intn(10) {
	case 0, 1, 2, 3, 4:
		c.RunStart, c.RunEnd = 0, L
	case 5, 6, 7:
		a, b := r.Intn(L+1), r.Intn(L+1)
		if a > b {
			a, b = b, a
		}
		c.RunStart, c.RunEnd = a, b
	case 8:
		a := r.Intn(L + 1)
		c.RunStart, c.RunEnd = a, a // empty
	default:
		switch r.Intn(3) {
		case 0:
			c.RunStart, c.RunEnd = r.Intn(L+1), L+1+r.Intn(3) // end beyond the text
		case 1:
			c.RunStart, c.RunEnd = -1-r.Intn(3), r.Intn(L+1) // start before the text
		default:
			a, b := r.Intn(L+1), r.Intn(L+1)
			if a < b {
				a, b = b, a
			}
			c.RunStart, c.RunEnd = a, b // swapped
		}
	}
	d := allDirs[r.Intn(4)]
	if r.Chance(1, 2) {
		d = allDirs[r.Intn(2)]
	}
	if d.IsVertical() && r.Chance(1, 2) {
		d.SetSideways(r.Bool())
	}
	c.Dir = uint8(d)
	switch r.Intn(4) {
	case 0:
		c.Script = 0
	case 1:
		c.Script = uint32(language.ScriptRanges[r.Intn(len(language.ScriptRanges))].Script)
	default:
		c.Script = uint32(guessScript(c.Text))
	}
	c.Lang = gen.Pick(r, langs)
	c.Size = gen.Pick(r, sizes)
	nf := 0
	if r.Chance(1, 2) {
		nf = 1 + r.Intn(3)
	}
	for i := 0; i < nf; i++ {
		var tag uint32
		if len(fi.features) > 0 && r.Chance(2, 3) {
			tag = gen.Pick(r, fi.features)
		} else {
			tag = uint32(ot.MustNewTag(gen.Pick(r, commonFeatures)))
		}
		c.Features = append(c.Features, Feat{Tag: tag, Value: gen.Pick(r, []uint32{0, 1, 1, 3})})
	}
	if len(fi.axes) > 0 && r.Chance(1, 2) {
		for i, ax := range fi.axes {
			var v float32
			switch r.Intn(5) {
			case 0:
				v = fi.axesMin[i]
			case 1:
				v = fi.axesMax[i]
			case 2:
				v = fi.axesMax[i] + 100
			case 3:
				v = ax.Value
			default:
				v = fi.axesMin[i] + (fi.axesMax[i]-fi.axesMin[i])*float32(r.Intn(1000))/1000
			}
			c.Vars = append(c.Vars, Var{Tag: uint32(ax.Tag), Value: v})
		}
	}
	if r.Chance(1, 3) {
		c.Buffer = true
		c.Flags = uint16(r.Intn(128))
		c.ClusterLevel = uint8(r.Intn(3))
		// buffer level needs item bounds inside the text
		if c.RunStart < 0 || c.RunEnd > L || c.RunStart > c.RunEnd {
			c.RunStart, c.RunEnd = 0, L
		}
		if c.RunStart == 0 && c.RunEnd == L && L > 0 && r.Chance(1, 3) {
			c.AltClusters = uint8(1 + r.Intn(4))
		}
		// ranged features
		for i := range c.Features {
			if r.Chance(1, 2) {
				a, b := r.Intn(L+1), r.Intn(L+1)
				if a > b {
					a, b = b, a
				}
				c.Features[i].Start, c.Features[i].End = a, b
			}
		}
	}
	return c
}

func baseName(id string) string {
	for i := len(id) - 1; i >= 0; i-- {
		if id[i] == '/' {
			return id[i+1:]
		}
	}
	return id
}

// Exec holds what one execution produced.
type Exec struct {
	Out      shaping.Output
	Info     []harfbuzz.GlyphInfo
	Pos      []harfbuzz.GlyphPosition
	Panic    any
	Where    string
	CPU      float64
	Alloc    uint64
	Stages   []harfbuzz.VerifStage
	Face     *font.Face
	NoFace   bool
	BufDir   harfbuzz.Direction
	ItemFrom int
	ItemTo   int
	// the Buffer.AddRune variant (Case.AltClusters)
	AltRan   bool
	AltInfo  []harfbuzz.GlyphInfo
	AltPos   []harfbuzz.GlyphPosition
	AltPanic any
	AltWhere string
}

// altCluster is the cluster value the AddRune variant gives to rune i of L.
func altCluster(mode uint8, i, L int) int {
	switch mode {
	case 1:
		return i
	case 2:
		return 1000000 + 5*i
	case 3:
		return 7
	default:
		return 5 * (L - 1 - i)
	}
}

// newFace builds a private face of the referenced font with the case's variations.
func (c *Case) newFace() *font.Face {
	ref, ok := corpus.ParseRef(c.Face)
	if !ok {
		return nil
	}
	f := font.NewFace(ref.Font())
	if len(c.Vars) > 0 {
		vs := make([]font.Variation, len(c.Vars))
		for i, v := range c.Vars {
			vs[i] = font.Variation{Tag: ot.Tag(v.Tag), Value: v.Value}
		}
		f.SetVariations(vs)
	}
	return f
}

func (c *Case) input(face *font.Face) shaping.Input {
	in := shaping.Input{
		Text: c.Text, RunStart: c.RunStart, RunEnd: c.RunEnd,
		Direction: c.direction(), Face: face, Size: fixed.Int26_6(c.Size),
		Script: language.Script(c.Script), Language: language.NewLanguage(c.Lang),
	}
	for _, f := range c.Features {
		in.FontFeatures = append(in.FontFeatures, shaping.FontFeature{Tag: ot.Tag(f.Tag), Value: f.Value})
	}
	return in
}

func (c *Case) hbFeatures() []harfbuzz.Feature {
	var out []harfbuzz.Feature
	for _, f := range c.Features {
		hf := harfbuzz.Feature{Tag: ot.Tag(f.Tag), Value: f.Value, Start: harfbuzz.FeatureGlobalStart, End: harfbuzz.FeatureGlobalEnd}
		if f.Start != 0 || f.End != 0 {
			hf.Start, hf.End = f.Start, f.End
		}
		out = append(out, hf)
	}
	return out
}

// ---- systematic sweep: every (letter, mark) pair of every script alphabet, both
// orders, 4 directions, 3 cluster levels (buffer level) + shaping level, on a
// face that covers the script (when the corpus has one) and on a fixed face.

type sweepItem struct {
	alphabet int
	mark     rune
}

var (
	sweepOnce  sync.Once
	sweepItems []sweepItem
	sweepFaces map[int][]string // alphabet -> up to 3 covering face references
)

func sweepInit(faces []corpus.FaceRef) {
	sweepOnce.Do(func() {
		for ai, a := range gen.Alphabets {
			seen := map[rune]bool{}
			for _, m := range a.Marks {
				if !seen[m] {
					seen[m] = true
					sweepItems = append(sweepItems, sweepItem{ai, m})
				}
			}
		}
		sweepFaces = map[int][]string{}
		for ai, a := range gen.Alphabets {
			var cov []string
			for _, ref := range faces {
				ft := ref.Font()
				n := 0
				for k := 0; k < len(a.Letters) && k < 6; k++ {
					if _, ok := ft.NominalGlyph(a.Letters[k]); ok {
						n++
					}
				}
				// also require one of the marks, so that mark-specific paths are reached
				hasMark := false
				for _, m := range a.Marks {
					if _, ok := ft.NominalGlyph(m); ok && m > 0x2FF && m != 0x200D && m != 0x200C {
						hasMark = true
						break
					}
				}
				if n >= 3 && hasMark {
					cov = append(cov, ref.String())
				}
			}
			if len(cov) > 3 {
				cov = []string{cov[0], cov[len(cov)/2], cov[len(cov)-1]}
			}
			sweepFaces[ai] = cov
		}
	})
}

const sweepVariants = 2 * 4 * 4 * 4 * 3 // order x direction x api/cluster level x face x letter choice

// SweepSize is the number of sweep cases.
func SweepSize(faces []corpus.FaceRef) int {
	sweepInit(faces)
	return len(sweepItems) * sweepVariants
}

// SweepCase builds sweep case k.
func SweepCase(k int, faces []corpus.FaceRef) *Case {
	sweepInit(faces)
	it := sweepItems[k/sweepVariants]
	v := k % sweepVariants
	order, v := v%2, v/2
	dir, v := v%4, v/4
	api, v := v%4, v/4
	facesel, v := v%4, v/4
	lsel := v % 3
	a := gen.Alphabets[it.alphabet]
	// three letter choices per mark: spread over the beginning, middle and end of the letters
	n := len(a.Letters)
	l1 := a.Letters[((k/sweepVariants)%7+lsel*n/3)%n]
	l2 := a.Letters[((k/sweepVariants*7+3)%5+(2-lsel)*n/3)%n]
	var text []rune
	if order == 0 {
		text = []rune{l1, it.mark, l2}
	} else {
		text = []rune{it.mark, l1, l2, it.mark}
	}
	c := &Case{Text: text, RunStart: 0, RunEnd: len(text), Dir: uint8(allDirs[dir]), Size: 16 << 6, Source: "pair-sweep"}
	c.Script = uint32(guessScript(text))
	c.Face = faces[0].String()
	if fs := sweepFaces[it.alphabet]; facesel < len(fs) {
		c.Face = fs[facesel]
	} else if ref, ok := corpus.ParseRef("sys/DejaVuSans.ttf#0"); ok {
		c.Face = ref.String()
	}
	if api > 0 {
		c.Buffer = true
		c.ClusterLevel = uint8(api - 1)
		c.Flags = 3 // BOT | EOT
	}
	return c
}

// ---- mark trains: a letter followed by 32..129 copies of one combining mark. Fixed
// scratch arrays and "at most 32 marks" shortcuts in the normalizer and the complex
// shapers only show beyond their bound.

var trainLengths = []int{31, 32, 33, 34, 65, 129}

const trainVariants = 6 * 2 * 2 * 2 // length x direction x api x face

// TrainSize is the number of mark-train cases.
func TrainSize(faces []corpus.FaceRef) int {
	sweepInit(faces)
	return len(sweepItems) * trainVariants
}

// TrainCase returns mark-train case k.
func TrainCase(k int, faces []corpus.FaceRef) *Case {
	sweepInit(faces)
	it := sweepItems[k/trainVariants]
	v := k % trainVariants
	ln, v := trainLengths[v%6], v/6
	dir, v := v%2, v/2
	api, v := v%2, v/2
	facesel := v % 2
	a := gen.Alphabets[it.alphabet]
	text := []rune{a.Letters[(k/trainVariants)%len(a.Letters)]}
	for i := 0; i < ln; i++ {
		text = append(text, it.mark)
	}
	text = append(text, a.Letters[(k/trainVariants+1)%len(a.Letters)])
	c := &Case{Text: text, RunStart: 0, RunEnd: len(text), Dir: uint8(allDirs[dir]), Size: 16 << 6, Source: "mark-train"}
	c.Script = uint32(guessScript(text))
	c.Face = faces[0].String()
	if fs := sweepFaces[it.alphabet]; facesel == 0 && len(fs) > 0 {
		c.Face = fs[0]
	} else if ref, ok := corpus.ParseRef("sys/DejaVuSans.ttf#0"); ok {
		c.Face = ref.String()
	}
	if api > 0 {
		c.Buffer = true
		c.Flags = 3
	}
	return c
}

// ---- repeat trains: a short pattern of the face's own mapped runes repeated 130 times.
// State machines with fixed-size stacks (the 64-entry component stack of AAT ligature
// subtables), ring buffers and per-run budgets only show on long uniform runs.

var repeatPatterns = [][]int{{0}, {0, 1}, {0, 2}, {0, 1, 2}, {1, 2}}

// RepeatSize is the number of repeat-train cases.
func RepeatSize(faces []corpus.FaceRef) int { return len(faces) * len(repeatPatterns) }

// RepeatCase returns repeat-train case k.
func RepeatCase(k int, faces []corpus.FaceRef) *Case {
	ref := faces[k/len(repeatPatterns)]
	pat := repeatPatterns[k%len(repeatPatterns)]
	fi := getInfo(ref)
	var letters []rune
	for _, r := range fi.mapped {
		if r > 0x20 && len(letters) < 3 && (unicode.IsLetter(r) || r > 0x7F) {
			letters = append(letters, r)
		}
	}
	for len(letters) < 3 {
		letters = append(letters, rune('a'+len(letters)))
	}
	var text []rune
	for i := 0; i < 130; i++ {
		for _, p := range pat {
			text = append(text, letters[p])
		}
	}
	c := &Case{Text: text, RunStart: 0, RunEnd: len(text), Dir: uint8(di.DirectionLTR), Size: 16 << 6, Source: "repeat-train", Face: ref.String()}
	c.Script = uint32(guessScript(text))
	if k%2 == 1 {
		c.Buffer = true
		c.Flags = 3
	}
	return c
}

// spaceText interleaves digits and punctuation with every Unicode space the shaper
// synthesises an advance for when the face has no glyph for it (U+2000..200A, 202F,
// 205F, 3000: fractions of an em, figure and punctuation width, narrow spaces).
var spaceText = func() []rune {
	sp := []rune{0x2000, 0x2001, 0x2002, 0x2003, 0x2004, 0x2005, 0x2006, 0x2007, 0x2008, 0x2009, 0x200A, 0x202F, 0x205F, 0x3000, 0x00A0}
	var t []rune
	for i, r := range sp {
		t = append(t, rune('0'+i%10), r)
	}
	return append(t, '.', 0x2008, ',', 0x2007, '1')
}()

// SpaceSize is the number of space-fallback cases: every face x 4 directions x 2 APIs.
func SpaceSize(faces []corpus.FaceRef) int { return len(faces) * 8 }

// SpaceCase returns space-fallback case k.
func SpaceCase(k int, faces []corpus.FaceRef) *Case {
	ref := faces[k/8]
	c := &Case{Text: spaceText, RunStart: 0, RunEnd: len(spaceText), Dir: uint8(k % 4), Size: 16 << 6, Source: "space-fallback", Face: ref.String()}
	c.Script = uint32(guessScript(spaceText))
	if k%8 >= 4 {
		c.Buffer = true
	}
	return c
}
