package shape

import (
	"fmt"
	"math"
	"runtime"

	"github.com/go-text/typesetting/di"
	"github.com/go-text/typesetting/harfbuzz"
	"github.com/go-text/typesetting/language"
	"github.com/go-text/typesetting/shaping"
	"golang.org/x/image/math/fixed"

	"verifharness/internal/vrun"
)

// Finding is one law failure.
type Finding struct {
	Key, Msg string
}

var stageLog []harfbuzz.VerifStage

func init() {
	// single-goroutine workers: the observer appends to a package slice
	harfbuzz.VerifObserver = func(s harfbuzz.VerifStage) { stageLog = append(stageLog, s) }
}

// Execute runs the case (shaping level or buffer level) with meters on.
func (c *Case) Execute() (ex Exec) {
	face := c.newFace()
	if face == nil {
		ex.NoFace = true
		return
	}
	ex.Face = face
	stageLog = stageLog[:0]
	runtime.LockOSThread()
	cpu0, al0 := vrun.ThreadCPU(), vrun.AllocBytes()
	if !c.Buffer {
		in := c.input(face)
		ex.Panic, ex.Where = vrun.Catch(func() {
			var sh shaping.HarfbuzzShaper
			ex.Out = sh.Shape(in)
		})
	} else {
		ex.Panic, ex.Where = vrun.Catch(func() {
			buf := harfbuzz.NewBuffer()
			buf.AddRunes(c.Text, c.RunStart, c.RunEnd-c.RunStart)
			buf.Props.Direction = c.direction().Harfbuzz()
			buf.Props.Script = language.Script(c.Script)
			buf.Props.Language = language.NewLanguage(c.Lang)
			buf.Flags = harfbuzz.ShappingOptions(c.Flags)
			buf.ClusterLevel = harfbuzz.ClusterLevel(c.ClusterLevel)
			ft := harfbuzz.NewFont(face)
			ft.XScale = int32(fixed.Int26_6(c.Size).Ceil()) << 6
			ft.YScale = ft.XScale
			buf.Shape(ft, c.hbFeatures())
			ex.Info = append([]harfbuzz.GlyphInfo(nil), buf.Info...)
			ex.Pos = append([]harfbuzz.GlyphPosition(nil), buf.Pos...)
			ex.BufDir = buf.Props.Direction
		})
		if L := len(c.Text); c.AltClusters != 0 && ex.Panic == nil && c.RunStart == 0 && c.RunEnd == L {
			ex.AltRan = true
			ex.AltPanic, ex.AltWhere = vrun.Catch(func() {
				buf := harfbuzz.NewBuffer()
				for i, r := range c.Text {
					buf.AddRune(r, altCluster(c.AltClusters, i, L))
				}
				buf.Props.Direction = c.direction().Harfbuzz()
				buf.Props.Script = language.Script(c.Script)
				buf.Props.Language = language.NewLanguage(c.Lang)
				buf.Flags = harfbuzz.ShappingOptions(c.Flags)
				buf.ClusterLevel = harfbuzz.ClusterLevel(c.ClusterLevel)
				ft := harfbuzz.NewFont(face)
				ft.XScale = int32(fixed.Int26_6(c.Size).Ceil()) << 6
				ft.YScale = ft.XScale
				feats := c.hbFeatures()
				for i := range feats {
					if feats[i].Start == harfbuzz.FeatureGlobalStart && feats[i].End == harfbuzz.FeatureGlobalEnd {
						continue
					}
					switch c.AltClusters {
					case 1, 2:
						feats[i].Start, feats[i].End = altCluster(c.AltClusters, feats[i].Start, L), altCluster(c.AltClusters, feats[i].End, L)
					default:
						// no order-preserving relabeling: global features only
						feats[i].Start, feats[i].End = harfbuzz.FeatureGlobalStart, harfbuzz.FeatureGlobalEnd
					}
				}
				buf.Shape(ft, feats)
				ex.AltInfo = append([]harfbuzz.GlyphInfo(nil), buf.Info...)
				ex.AltPos = append([]harfbuzz.GlyphPosition(nil), buf.Pos...)
			})
		}
	}
	ex.CPU = vrun.ThreadCPU() - cpu0
	ex.Alloc = vrun.AllocBytes() - al0
	ex.Stages = append([]harfbuzz.VerifStage(nil), stageLog...)
	return ex
}

const (
	cpuBudget   = 20.0      // seconds per call
	allocBudget = 512 << 20 // bytes per call
)

func maxInt(a, b int) int {
	if a > b {
		return a
	}
	return b
}

// JudgeC01 applies the totality and cluster-accounting laws.
func JudgeC01(c *Case, ex *Exec) []Finding {
	var out []Finding
	add := func(k, f string, a ...any) { out = append(out, Finding{"C01/" + k, fmt.Sprintf(f, a...)}) }
	if ex.Panic != nil {
		add("panic/"+vrun.TopFrame(ex.Where), "shaping panicked: %v at %s", ex.Panic, ex.Where)
		return out
	}
	L := len(c.Text)
	n := c.RunEnd - c.RunStart
	if n < 0 {
		n = -n
	}
	if n > L {
		n = L
	}
	if ex.CPU > cpuBudget {
		add("cpu-budget", "one call used %.1f CPU seconds for a run of %d runes", ex.CPU, n)
	}
	if n <= 256 && ex.Alloc > allocBudget {
		add("alloc-budget", "one call allocated %d MiB for a run of %d runes", ex.Alloc>>20, n)
	}
	// output-size budget proportional to the run length: the shaper's own budgets are
	// max(64n,16384) glyphs for OpenType substitution and max(1024n,16384) operations (one
	// inserted glyph costs one operation in AAT insertion); anything beyond their sum with
	// slack is out of proportion
	lenBudget := maxInt(1024*n, 16384) + 4*maxInt(64*n, 16384)
	// stage checkpoints: Info and Pos in step once positions exist; budgets
	for _, s := range ex.Stages {
		if (s.Stage == "positioned" || s.Stage == "end") && s.LenInfo != s.LenPos {
			add("info-pos-desync", "at stage %q the buffer holds %d glyph infos and %d positions", s.Stage, s.LenInfo, s.LenPos)
		}
		if s.LenInfo > lenBudget {
			add("length-budget", "at stage %q the buffer holds %d glyphs for a run of %d runes (budget %d)", s.Stage, s.LenInfo, n, lenBudget)
		}
	}
	if c.Buffer && ex.AltRan {
		// the same text added rune by rune with cluster values of the caller's choosing
		switch {
		case ex.AltPanic != nil:
			add("panic/"+vrun.TopFrame(ex.AltWhere), "shaping a buffer filled with AddRune (cluster mode %d) panicked: %v at %s", c.AltClusters, ex.AltPanic, ex.AltWhere)
		case len(ex.AltInfo) != len(ex.AltPos):
			add("info-pos-desync", "Buffer.Shape (AddRune, cluster mode %d) returned %d infos and %d positions", c.AltClusters, len(ex.AltInfo), len(ex.AltPos))
		case c.AltClusters <= 2:
			// an order-preserving relabeling of the clusters relabels the output and changes nothing else
			same := len(ex.AltInfo) == len(ex.Info)
			at := -1
			for i := 0; same && i < len(ex.Info); i++ {
				if ex.AltInfo[i].Glyph != ex.Info[i].Glyph || ex.AltPos[i] != ex.Pos[i] ||
					ex.AltInfo[i].Cluster != altCluster(c.AltClusters, ex.Info[i].Cluster, L) ||
					ex.AltInfo[i].Mask&altFlags != ex.Info[i].Mask&altFlags {
					same, at = false, i
				}
			}
			if !same {
				add("addrune-differs", "AddRunes(text,0,%d) gives %d glyphs, AddRune with clusters i->%d gives %d glyphs; first difference at glyph %d", L, len(ex.Info), altCluster(c.AltClusters, 1, L)-altCluster(c.AltClusters, 0, L), len(ex.AltInfo), at)
			}
		default:
			ok := map[int]bool{}
			for i := range c.Text {
				ok[altCluster(c.AltClusters, i, L)] = true
			}
			for i, gi := range ex.AltInfo {
				if !ok[gi.Cluster] {
					add("cluster-range", "AddRune cluster mode %d: glyph %d has cluster %d, which no input rune carried", c.AltClusters, i, gi.Cluster)
					break
				}
			}
			if len(ex.AltInfo) > lenBudget {
				add("length-budget", "%d glyphs for an item of %d runes (AddRune)", len(ex.AltInfo), n)
			}
		}
	}
	if c.Buffer {
		if len(ex.Info) != len(ex.Pos) {
			add("info-pos-desync", "Buffer.Shape returned %d infos and %d positions", len(ex.Info), len(ex.Pos))
		}
		if len(ex.Info) > lenBudget {
			add("length-budget", "%d glyphs for an item of %d runes", len(ex.Info), n)
		}
		lo, hi := c.RunStart, c.RunEnd
		for i, gi := range ex.Info {
			if gi.Cluster < lo || gi.Cluster >= hi {
				add("cluster-range", "glyph %d has cluster %d outside the item [%d,%d)", i, gi.Cluster, lo, hi)
				break
			}
		}
		if c.ClusterLevel != uint8(harfbuzz.Characters) {
			backward := ex.BufDir == harfbuzz.RightToLeft || ex.BufDir == harfbuzz.BottomToTop
			for i := 1; i < len(ex.Info); i++ {
				a, b := ex.Info[i-1].Cluster, ex.Info[i].Cluster
				if (!backward && b < a) || (backward && b > a) {
					key := "cluster-monotone"
					note := ""
					if c.ClusterLevel == uint8(harfbuzz.MonotoneCharacters) {
						// open finding: at this level some complex-shaper reorderings leave clusters
						// unmerged, in the port exactly as in upstream HarfBuzz 6.0.0. Predicted model:
						// the reference C library returns the same cluster sequence for the same input.
						if rc, ok := refClusters(c); ok && len(rc) == len(ex.Info) {
							same := true
							for k := range rc {
								if rc[k] != ex.Info[k].Cluster {
									same = false
								}
							}
							if same {
								key = "cluster-monotone-level1-as-upstream"
								note = " (the C HarfBuzz 6.0.0 reference returns the same clusters)"
							}
						}
					}
					add(key, "buffer level, cluster level %d, direction %v: clusters %d then %d at glyphs %d,%d%s", c.ClusterLevel, ex.BufDir, a, b, i-1, i, note)
					break
				}
			}
		}
		return out
	}
	o := ex.Out
	if len(o.Glyphs) > lenBudget {
		add("length-budget", "%d glyphs for a run of %d runes", len(o.Glyphs), n)
	}
	if o.Runes.Offset != c.RunStart || o.Runes.Count != c.RunEnd-c.RunStart {
		add("rune-range", "output reports runes {%d,%d}, requested [%d,%d)", o.Runes.Offset, o.Runes.Count, c.RunStart, c.RunEnd)
	}
	if !(0 <= c.RunStart && c.RunStart <= c.RunEnd && c.RunEnd <= L) {
		return out
	}
	backward := c.direction().Progression() == di.TowardTopLeft
	sum := 0
	for i := 0; i < len(o.Glyphs); {
		g := o.Glyphs[i]
		if g.ClusterIndex < c.RunStart || g.ClusterIndex >= c.RunEnd {
			add("cluster-range", "glyph %d has cluster index %d outside the run [%d,%d)", i, g.ClusterIndex, c.RunStart, c.RunEnd)
			return out
		}
		j := i
		for j < len(o.Glyphs) && o.Glyphs[j].ClusterIndex == g.ClusterIndex {
			if o.Glyphs[j].RuneCount != g.RuneCount || o.Glyphs[j].GlyphCount != g.GlyphCount {
				add("cluster-counts", "glyphs %d and %d of cluster %d carry different counts (%d,%d) vs (%d,%d)", i, j, g.ClusterIndex, g.RuneCount, g.GlyphCount, o.Glyphs[j].RuneCount, o.Glyphs[j].GlyphCount)
				return out
			}
			j++
		}
		if g.GlyphCount != j-i {
			add("cluster-counts", "cluster %d has %d adjacent glyphs but GlyphCount=%d", g.ClusterIndex, j-i, g.GlyphCount)
			return out
		}
		if g.RuneCount < 1 {
			add("cluster-counts", "cluster %d has RuneCount=%d", g.ClusterIndex, g.RuneCount)
			return out
		}
		sum += g.RuneCount
		if j < len(o.Glyphs) {
			nx := o.Glyphs[j].ClusterIndex
			if (!backward && nx < g.ClusterIndex) || (backward && nx > g.ClusterIndex) {
				add("cluster-monotone", "direction %v: cluster %d is followed by cluster %d", c.direction(), g.ClusterIndex, nx)
				return out
			}
		}
		i = j
	}
	// glyphs of one cluster are adjacent: a cluster index never reappears
	seen := map[int]bool{}
	prev := -1
	for _, g := range o.Glyphs {
		if g.ClusterIndex != prev {
			if seen[g.ClusterIndex] {
				add("cluster-adjacent", "cluster %d appears in two separate glyph groups", g.ClusterIndex)
				break
			}
			seen[g.ClusterIndex] = true
			prev = g.ClusterIndex
		}
	}
	if len(o.Glyphs) > 0 && sum != c.RunEnd-c.RunStart {
		add("rune-count-sum", "per-cluster rune counts sum to %d, the run has %d runes", sum, c.RunEnd-c.RunStart)
	}
	return out
}

// ---------------------------------------------------------------- C12

func axisAdv(d di.Direction, g shaping.Glyph) fixed.Int26_6 {
	if d.IsVertical() {
		return g.YAdvance
	}
	return g.XAdvance
}

func crossAdv(d di.Direction, g shaping.Glyph) fixed.Int26_6 {
	if d.IsVertical() {
		return g.XAdvance
	}
	return g.YAdvance
}

// identities checks the geometric identities that must hold for any Output.
func identities(tag string, o shaping.Output, add func(k, f string, a ...any)) {
	var sum fixed.Int26_6
	for i, g := range o.Glyphs {
		sum += axisAdv(o.Direction, g)
		if crossAdv(o.Direction, g) != 0 {
			add("cross-axis-advance", "%s: glyph %d (gid %d) has cross-axis advance %d", tag, i, g.GlyphID, crossAdv(o.Direction, g))
			break
		}
	}
	if sum != o.Advance {
		add("advance-sum", "%s: Advance=%d, glyph advances sum to %d", tag, o.Advance, sum)
	}
	b := o.GlyphBounds
	if b.Ascent < 0 || b.Descent > 0 {
		add("bounds-baseline", "%s: glyph bounds [%d,%d] do not enclose the baseline", tag, b.Descent, b.Ascent)
	}
	for i, g := range o.Glyphs {
		var lo, hi fixed.Int26_6
		if o.Direction.IsVertical() {
			lo = g.XOffset + g.XBearing
			hi = lo + g.Width
		} else {
			hi = g.YOffset + g.YBearing
			lo = hi + g.Height
		}
		if lo > hi {
			lo, hi = hi, lo
		}
		if lo < b.Descent || hi > b.Ascent {
			add("bounds-ink", "%s: glyph %d ink interval [%d,%d] on the cross axis is outside the glyph bounds [%d,%d]", tag, i, lo, hi, b.Descent, b.Ascent)
			break
		}
	}
}

type inkBox struct{ x0, x1, y0, y1, ax, ay fixed.Int26_6 }

func ink(g shaping.Glyph) inkBox {
	x0 := g.XOffset + g.XBearing
	x1 := x0 + g.Width
	y1 := g.YOffset + g.YBearing
	y0 := y1 + g.Height
	if x0 > x1 {
		x0, x1 = x1, x0
	}
	if y0 > y1 {
		y0, y1 = y1, y0
	}
	return inkBox{x0, x1, y0, y1, g.XAdvance, g.YAdvance}
}

var wordSeparators = map[rune]bool{0x20: true, 0xA0: true, 0x1361: true, 0x10100: true, 0x10101: true, 0x1039F: true, 0x1091F: true}

// JudgeC12 applies the geometry laws. It performs additional shaping calls
// (sideways counterpart, spacing) itself.
func JudgeC12(c *Case, ex *Exec) []Finding {
	var out []Finding
	if ex.Panic != nil || c.Buffer {
		return nil // C01's business / not an Output
	}
	L := len(c.Text)
	if !(0 <= c.RunStart && c.RunStart <= c.RunEnd && c.RunEnd <= L) {
		return nil
	}
	add := func(k, f string, a ...any) { out = append(out, Finding{"C12/" + k, fmt.Sprintf(f, a...)}) }
	o := ex.Out
	identities("after Shape", o, add)

	// line bounds = font extents under the scale used for advances (ceil(Size)/upem)
	face := ex.Face
	upem := float64(face.Upem())
	if upem > 0 {
		scale := float64(fixed.Int26_6(c.Size).Ceil()) * 64 / upem
		var asc, desc, gap float64
		ok := false
		if o.Direction.IsVertical() {
			if e, has := face.FontVExtents(); has {
				asc, desc, gap, ok = float64(e.Ascender), float64(e.Descender), float64(e.LineGap), true
			}
		} else if e, has := face.FontHExtents(); has {
			asc, desc, gap, ok = float64(e.Ascender), float64(e.Descender), float64(e.LineGap), true
		}
		if ok {
			const tol = 2.0
			chk := func(name string, got fixed.Int26_6, fu float64) {
				want := fu * scale
				if math.Abs(float64(got)-want) > tol+math.Abs(want)*1e-6 {
					add("line-bounds", "LineBounds.%s=%d (26.6) but font extents give %.2f under scale ceil(size)/upem (size %d, upem %v, font units %.2f)", name, got, want, c.Size, upem, fu)
				}
			}
			chk("Ascent", o.LineBounds.Ascent, asc)
			chk("Descent", o.LineBounds.Descent, desc)
			chk("Gap", o.LineBounds.Gap, gap)
		}
	}

	// sideways = 90 degree clockwise rotation of the horizontal shaping
	if o.Direction.IsSideways() {
		hc := *c
		hd := di.DirectionLTR
		if c.direction().Progression() == di.TowardTopLeft {
			hd = di.DirectionRTL
		}
		hc.Dir = uint8(hd)
		var ho shaping.Output
		pv, _ := vrun.Catch(func() {
			var sh shaping.HarfbuzzShaper
			ho = sh.Shape(hc.input(hc.newFace()))
		})
		if pv == nil {
			if len(ho.Glyphs) != len(o.Glyphs) {
				add("sideways", "sideways shaping has %d glyphs, horizontal shaping of the same text %d", len(o.Glyphs), len(ho.Glyphs))
			} else {
				for i := range o.Glyphs {
					s, h := o.Glyphs[i], ho.Glyphs[i]
					if s.GlyphID != h.GlyphID || s.ClusterIndex != h.ClusterIndex {
						add("sideways", "glyph %d: sideways (gid %d, cluster %d) vs horizontal (gid %d, cluster %d)", i, s.GlyphID, s.ClusterIndex, h.GlyphID, h.ClusterIndex)
						break
					}
					sb, hb := ink(s), ink(h)
					// (x,y) -> (y,-x)
					if sb.x0 != hb.y0 || sb.x1 != hb.y1 || sb.y0 != -hb.x1 || sb.y1 != -hb.x0 || sb.ax != 0 || sb.ay != -hb.ax {
						add("sideways", "glyph %d: ink box/advance %+v is not the clockwise rotation of the horizontal %+v", i, sb, hb)
						break
					}
				}
			}
		}
	}

	// spacing
	if len(o.Glyphs) > 0 {
		for _, sp := range []fixed.Int26_6{-192, 64, 160, 2560, 97, 1, -33} { // odd values: the half spacing on each side is truncated
			// word spacing
			w := copyOut(o)
			w.AddWordSpacing(c.Text, sp)
			identities("after AddWordSpacing", w, add)
			for i := range w.Glyphs {
				g0, g1 := o.Glyphs[i], w.Glyphs[i]
				want := fixed.Int26_6(0)
				if g0.RuneCount == 1 && g0.GlyphCount == 1 && g0.ClusterIndex >= 0 && g0.ClusterIndex < L && wordSeparators[c.Text[g0.ClusterIndex]] {
					want = sp
				}
				if d := axisAdv(o.Direction, g1) - axisAdv(o.Direction, g0); d != want {
					add("word-spacing", "spacing %d: glyph %d (cluster %d, rune %U) advance changed by %d, expected %d", sp, i, g0.ClusterIndex, c.Text[g0.ClusterIndex], d, want)
					break
				}
				if crossAdv(o.Direction, g1) != crossAdv(o.Direction, g0) {
					add("word-spacing", "spacing %d: glyph %d cross-axis advance changed", sp, i)
					break
				}
			}
			// letter spacing with the four start/end flag combinations
			for fl := 0; fl < 4; fl++ {
				isStart, isEnd := fl&1 == 1, fl&2 == 2
				l := copyOut(o)
				l.AddLetterSpacing(sp, isStart, isEnd)
				identities("after AddLetterSpacing", l, add)
				half := sp / 2
				bad := false
				for i := 0; i < len(l.Glyphs) && !bad; {
					g := o.Glyphs[i]
					gc := g.GlyphCount
					if gc < 1 || i+gc > len(l.Glyphs) {
						break // malformed clusters are C01's business
					}
					first, last := i, i+gc-1
					for k := first; k <= last; k++ {
						want := fixed.Int26_6(0)
						if k == first && (first > 0 || !isStart) {
							want += half
						}
						if k == last && (last < len(l.Glyphs)-1 || !isEnd) {
							want += half
						}
						if d := axisAdv(o.Direction, l.Glyphs[k]) - axisAdv(o.Direction, o.Glyphs[k]); d != want {
							add("letter-spacing", "spacing %d (isStart=%v isEnd=%v): glyph %d of %d (cluster %d, glyphs %d..%d) advance changed by %d, expected %d", sp, isStart, isEnd, k, len(l.Glyphs), g.ClusterIndex, first, last, d, want)
							bad = true
							break
						}
						s0, e0 := shaping.VerifLetterSpacing(l.Glyphs[k])
						var ws, we fixed.Int26_6
						if k == first && (first > 0 || !isStart) {
							ws = half
						}
						if k == last && (last < len(l.Glyphs)-1 || !isEnd) {
							we = half
						}
						if s0 != ws || e0 != we {
							add("letter-spacing", "spacing %d: glyph %d records letter spacing (%d,%d), expected (%d,%d)", sp, k, s0, e0, ws, we)
							bad = true
							break
						}
					}
					i += gc
				}
			}
		}
		// the convenience function is the two methods applied in sequence (a single run is
		// both the first and the last run of its list)
		for _, ws := range []fixed.Int26_6{160, -33} {
			for _, ls := range []fixed.Int26_6{0, 1, 97} {
				runs := []shaping.Output{copyOut(o)}
				shaping.AddSpacing(runs, c.Text, ws, ls)
				identities(fmt.Sprintf("after AddSpacing(word %d, letter %d)", ws, ls), runs[0], add)
				m := copyOut(o)
				if ws != 0 {
					m.AddWordSpacing(c.Text, ws)
				}
				if ls != 0 {
					m.AddLetterSpacing(ls, true, true)
				}
				if len(m.Glyphs) == len(runs[0].Glyphs) {
					for i := range m.Glyphs {
						if m.Glyphs[i] != runs[0].Glyphs[i] {
							add("spacing-helper", "AddSpacing(word %d, letter %d): glyph %d differs from AddWordSpacing followed by AddLetterSpacing", ws, ls, i)
							break
						}
					}
				}
				if m.Advance != runs[0].Advance {
					add("spacing-helper", "AddSpacing(word %d, letter %d): run advance %d, the two methods in sequence give %d", ws, ls, runs[0].Advance, m.Advance)
				}
			}
		}
		// Line.AdjustBaselines only moves the cross-axis position: bounds and glyphs together
		if o.Direction.IsVertical() {
			ln := shaping.Line{copyOut(o)}
			ln.AdjustBaselines()
			identities("after Line.AdjustBaselines", ln[0], add)
			if ln[0].Advance != o.Advance {
				add("adjust-baselines", "AdjustBaselines changed the run advance from %d to %d", o.Advance, ln[0].Advance)
			}
		}
		// RecalculateAll restores all identities
		r := copyOut(o)
		r.AddLetterSpacing(96, false, false)
		r.RecalculateAll()
		identities("after AddLetterSpacing+RecalculateAll", r, add)
	}
	return out
}

// identitiesAdv: after spacing only the advance identities are promised
// (bounds are not recomputed by the spacing functions).
func identitiesAdv(tag string, o shaping.Output, add func(k, f string, a ...any)) {
	var sum fixed.Int26_6
	for i, g := range o.Glyphs {
		sum += axisAdv(o.Direction, g)
		if crossAdv(o.Direction, g) != 0 {
			add("cross-axis-advance", "%s: glyph %d has cross-axis advance %d", tag, i, crossAdv(o.Direction, g))
			break
		}
	}
	if sum != o.Advance {
		add("advance-sum", "%s: Advance=%d, glyph advances sum to %d", tag, o.Advance, sum)
	}
}

func copyOut(o shaping.Output) shaping.Output {
	c := o
	c.Glyphs = append([]shaping.Glyph(nil), o.Glyphs...)
	return c
}

// altFlags: the glyph flags Buffer.Shape reports to the caller.
const altFlags = harfbuzz.GlyphUnsafeToBreak | harfbuzz.GlyphUnsafeToConcat | harfbuzz.GlyphSafeToInsertTatweel
