package shape

import (
	"fmt"
	"os"
	"time"

	"verifharness/internal/corpus"
	"verifharness/internal/vrun"
)

func judge(prop string, c *Case, ex *Exec) []Finding {
	if prop == "C01" {
		return JudgeC01(c, ex)
	}
	return JudgeC12(c, ex)
}

// Main runs the shaping workload under the monitor of property prop, in child
// processes (a shaping call can die with a fatal runtime error or hang).
func Main(prop string) {
	run := vrun.Start(prop)
	utils := corpus.UtilsDir()

	one := func(c *Case) {
		ex := c.Execute()
		if ex.NoFace {
			run.Inconclusive("face reference not loadable")
			return
		}
		// a CPU reading above the budget is re-measured: the verdict is the minimum of
		// three runs (first-touch page faults of a freshly restored VM are charged to the
		// thread clock once, an algorithmic blow-up every time)
		for k := 0; k < 2 && ex.CPU > cpuBudget && ex.Panic == nil; k++ {
			run.Cover("cpu-remeasured")
			if ex2 := c.Execute(); ex2.CPU < ex.CPU {
				ex.CPU = ex2.CPU
			}
		}
		run.Eval(1)
		fs := judge(prop, c, &ex)
		classify(run, prop, c, &ex)
		seen := map[string]bool{}
		for _, f := range fs {
			if !seen[f.Key] {
				seen[f.Key] = true
				run.Violation(f.Key, f.Msg, c)
			}
		}
	}

	if run.Replay != "" {
		var c Case
		if _, err := vrun.ReadReplay(run.Replay, &c); err != nil {
			fmt.Println("replay:", err)
			os.Exit(2)
		}
		fmt.Printf("case: face=%s text=%q (%U) run=[%d,%d) dir=%d script=%d lang=%q size=%d features=%v vars=%v buffer=%v flags=%d cl=%d\n",
			c.Face, string(c.Text), c.Text, c.RunStart, c.RunEnd, c.Dir, c.Script, c.Lang, c.Size, c.Features, c.Vars, c.Buffer, c.Flags, c.ClusterLevel)
		{
			ex := c.Execute()
			if ex.Panic != nil {
				fmt.Println("PANIC:", ex.Panic, ex.Where)
			}
			for i, gi := range ex.Info {
				fmt.Printf("  info[%d] gid=%d cluster=%d\n", i, gi.Glyph, gi.Cluster)
			}
			for i, g := range ex.Out.Glyphs {
				fmt.Printf("  glyph[%d] gid=%d cluster=%d runes=%d glyphs=%d adv=%d,%d off=%d,%d box=%d,%d,%d,%d\n", i, g.GlyphID, g.ClusterIndex, g.RuneCount, g.GlyphCount, g.XAdvance, g.YAdvance, g.XOffset, g.YOffset, g.XBearing, g.YBearing, g.Width, g.Height)
			}
			fmt.Printf("  stages=%+v cpu=%.3f alloc=%d\n", ex.Stages, ex.CPU, ex.Alloc)
			if !c.Buffer {
				fmt.Printf("  out: runes=%+v advance=%d linebounds=%+v glyphbounds=%+v dir=%d\n", ex.Out.Runes, ex.Out.Advance, ex.Out.LineBounds, ex.Out.GlyphBounds, ex.Out.Direction)
			}
		}
		one(&c)
		run.Finish(vrun.Level{Level: "exploration", Rule: "replay of one witness"})
	}

	faces := corpus.Faces()
	per := run.Pick(160, 2400)
	if prop == "C12" {
		per = run.Pick(40, 600)
	}
	nRandom := len(faces) * per
	nSweep := SweepSize(faces)
	nTrain := TrainSize(faces)
	nRepeat := RepeatSize(faces)
	total := nRandom + nSweep + nTrain + nRepeat + SpaceSize(faces)
	genCase := func(i int) *Case {
		if i >= nRandom+nSweep+nTrain+nRepeat {
			return SpaceCase(i-nRandom-nSweep-nTrain-nRepeat, faces)
		}
		if i >= nRandom+nSweep+nTrain {
			return RepeatCase(i-nRandom-nSweep-nTrain, faces)
		}
		if i >= nRandom+nSweep {
			return TrainCase(i-nRandom-nSweep, faces)
		}
		if i >= nRandom {
			return SweepCase(i-nRandom, faces)
		}
		return GenCase(run.Seed, i, faces, utils)
	}

	if run.Worker {
		run.WorkerLoop(cpuBudget, func(i int) {
			one(genCase(i))
		})
		run.Finish(vrun.Level{})
	}

	run.Extra("faces", len(faces))
	run.RunChildren(vrun.ChildCfg{N: total, Chunk: 2000, MemKiB: 8 << 20, StallWall: 10 * time.Minute}, func(d vrun.Death) {
		c := genCase(d.Case)
		switch d.Kind {
		case "cpu":
			run.Violation("C01/cpu-budget", fmt.Sprintf("shaping exceeded the CPU budget of %.0fs (confirmed alone): %s", cpuBudget, vrun.FatalHead(d.Detail)), c)
		default:
			run.Violation("C01/fatal/"+vrun.FatalHead(d.Detail), "shaping killed the process (confirmed alone): "+d.Detail, c)
		}
	})
	run.Extra("pair_sweep_cases", SweepSize(faces))
	run.Extra("mark_train_cases", TrainSize(faces))
	run.Extra("repeat_train_cases", RepeatSize(faces))
	run.Extra("space_fallback_cases", SpaceSize(faces))
	rule := "space fallback: digits and punctuation interleaved with U+2000..200A, 202F, 205F, 3000, 00A0 on every face x 4 directions x 2 APIs; repeat trains: 1..3 mapped letters of every face repeated 130 times; mark trains: a letter + 31..129 copies of each mark of the 21 script alphabets x 2 directions x 2 APIs x 2 faces; systematic sweep: every (letter, mark) pair of 21 script alphabets x 2 orders x 4 directions x {shaping.Shape, 3 buffer cluster levels} x {covering face, fixed face}; then case i: face = corpus face (i mod #faces), text from {cmap-local, per-script alphabets incl. ill-formed sequences, special classes, real text, upstream trigger strings and mutations}, run bounds inside/at edges/outside/swapped, LTR/RTL/TTB/BTT(+sideways), script (guessed/0/random), language, size 1..4096px incl. fractional, feature lists (global, ranged at buffer level), variation coordinates, shaping.Shape or harfbuzz.Buffer.Shape with random flags and cluster level. "
	if prop == "C01" {
		rule += "non-trivial = >=1 glyph and (glyph count != rune count, or a multi-glyph/multi-rune cluster, or non-LTR direction, or sub-run with context, or features); distinct by hash(font,text,bounds,direction,script,features)"
	} else {
		rule += "non-trivial = >=1 glyph with non-zero ink; distinct by hash(font,text,bounds,direction,size,features)"
	}
	run.Finish(vrun.Level{Level: "exploration", Rule: rule,
		Assumptions: []string{"fonts are the unmodified corpus fonts the loader accepts", "CPU measured per call on a locked OS thread (never wall clock); allocation measured by runtime/metrics delta in single-goroutine workers"},
		Floor:       2000})
}

func classify(run *vrun.Run, prop string, c *Case, ex *Exec) {
	if ex.Panic != nil {
		return
	}
	ref, _ := corpus.ParseRef(c.Face)
	_ = ref
	run.Cover("source=" + c.Source)
	run.Cover(fmt.Sprintf("dir=%d", c.Dir&3))
	if c.Buffer {
		run.Cover("api=harfbuzz.Buffer.Shape")
		run.Cover(fmt.Sprintf("cluster-level=%d", c.ClusterLevel))
		if ex.AltRan {
			run.Cover(fmt.Sprintf("api=harfbuzz.Buffer.AddRune/cluster-mode=%d", c.AltClusters))
		}
	} else {
		run.Cover("api=shaping.Shape")
	}
	ng := len(ex.Out.Glyphs)
	if c.Buffer {
		ng = len(ex.Info)
	}
	if ng == 0 {
		run.Cover("zero-glyphs")
		return
	}
	nr := c.RunEnd - c.RunStart
	nt := false
	if prop == "C01" {
		multi := false
		for _, g := range ex.Out.Glyphs {
			if g.RuneCount > 1 || g.GlyphCount > 1 {
				multi = true
			}
		}
		nt = ng != nr || multi || c.Dir&3 != 0 || (c.RunStart > 0 || c.RunEnd < len(c.Text)) || len(c.Features) > 0
		if multi {
			run.Cover("multi-rune-or-multi-glyph-cluster")
		}
		if ng != nr {
			run.Cover("glyphs!=runes")
		}
	} else {
		for _, g := range ex.Out.Glyphs {
			if g.Width != 0 && g.Height != 0 {
				nt = true
			}
		}
	}
	if len(c.Vars) > 0 {
		run.Cover("variations-set")
	}
	if c.RunStart > 0 || c.RunEnd < len(c.Text) {
		run.Cover("sub-run-with-context")
	}
	if nt {
		run.Nontrivial(vrun.Hash64(c.Face, c.Text, c.RunStart, c.RunEnd, c.Dir, c.Script, c.Size, fmt.Sprint(c.Features), c.Buffer, c.Flags, c.ClusterLevel))
		if run.WantSample() && len(c.Text) < 12 {
			run.Sample(map[string]any{"face": c.Face, "text": fmt.Sprintf("%U", c.Text), "run": []int{c.RunStart, c.RunEnd}, "dir": c.Dir, "glyphs": ng, "buffer_level": c.Buffer})
		}
	}
	for _, s := range ex.Stages {
		if s.Stage == "end" {
			run.Cover("stage-checkpoints-observed")
		}
	}
}
