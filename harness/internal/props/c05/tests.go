package c05

import (
	"flag"
	"fmt"
	"io"
	"os"
	"path"
	"path/filepath"
	"sort"
	"strconv"
	"strings"
	"sync"

	"github.com/go-text/typesetting/harfbuzz"
	"github.com/go-text/typesetting/language"

	"verifharness/internal/corpus"
	"verifharness/internal/hbref"
)

// UpstreamTest is one line of an upstream .tests file (hb-shape command line
// + expected serialisation), parsed the way
// /repo/harfbuzz/harfbuzz_shape_input_test.go parses it.
type UpstreamTest struct {
	File     string // e.g. "harfbuzz_reference/in-house/tests/x.tests"
	Line     string
	Case     Case
	Expected string
	SerFlags int  // hb_buffer_serialize flags implied by the format options
	Guess    bool // always true: hb-shape guesses unset segment properties
}

var (
	testsOnce sync.Once
	testsAll  []UpstreamTest
	testsBad  int
	// lines of the files upstream itself disables (text-rendering-tests/DISABLED:
	// HarfBuzz is known not to produce these expectations) and of macos.tests
	// (proprietary fonts, not shipped); the Go suite skips the same files.
	testsDisabled int
)

var disabledTests = map[string]bool{
	"in-house/macos.tests":              true,
	"text-rendering-tests/CMAP-3.tests": true, "text-rendering-tests/SHARAN-1.tests": true,
	"text-rendering-tests/SHBALI-1.tests": true, "text-rendering-tests/SHBALI-2.tests": true,
	"text-rendering-tests/SHKNDA-2.tests": true, "text-rendering-tests/SHKNDA-3.tests": true,
	"text-rendering-tests/SHLANA-1.tests": true, "text-rendering-tests/SHLANA-10.tests": true,
	"text-rendering-tests/SHLANA-2.tests": true, "text-rendering-tests/SHLANA-3.tests": true,
	"text-rendering-tests/SHLANA-4.tests": true, "text-rendering-tests/SHLANA-5.tests": true,
	"text-rendering-tests/SHLANA-6.tests": true, "text-rendering-tests/SHLANA-7.tests": true,
	"text-rendering-tests/SHLANA-8.tests": true, "text-rendering-tests/SHLANA-9.tests": true,
}

// UpstreamTests parses every .tests file shipped in typesetting-utils
// (aots, in-house, text-rendering-tests). Lines the Go suite skips
// (--shaper=fallback, fonts not shipped) are skipped here too.
func UpstreamTests() []UpstreamTest {
	testsOnce.Do(func() {
		root := filepath.Join(corpus.UtilsDir(), "harfbuzz")
		for _, sub := range []string{"aots", "in-house", "text-rendering-tests"} {
			dir := filepath.Join(root, "harfbuzz_reference", sub, "tests")
			ents, err := os.ReadDir(dir)
			if err != nil {
				continue
			}
			var names []string
			for _, e := range ents {
				if strings.HasSuffix(e.Name(), ".tests") {
					names = append(names, e.Name())
				}
			}
			sort.Strings(names)
			for _, n := range names {
				b, err := os.ReadFile(filepath.Join(dir, n))
				if err != nil {
					continue
				}
				rel := "harfbuzz_reference/" + sub + "/tests"
				for _, line := range strings.Split(string(b), "\n") {
					if strings.HasPrefix(line, "#") || strings.TrimSpace(line) == "" {
						continue
					}
					if strings.Contains(line, "--shaper=fallback") {
						continue
					}
					if disabledTests[sub+"/"+n] {
						testsDisabled++
						continue
					}
					t, err := parseTestLine(rel, line)
					if err != nil {
						testsBad++
						continue
					}
					t.File = rel + "/" + n
					testsAll = append(testsAll, t)
				}
			}
		}
	})
	return testsAll
}

func parseUnicodes(s string) ([]rune, error) {
	if strings.TrimSpace(s) == "" {
		return nil, nil
	}
	parts := strings.Split(s, ",")
	out := make([]rune, len(parts))
	for i, p := range parts {
		p = strings.TrimSpace(p)
		p = strings.TrimPrefix(strings.TrimPrefix(strings.TrimPrefix(p, "U+"), "u+"), "0x")
		v, err := strconv.ParseUint(p, 16, 32)
		if err != nil {
			return nil, fmt.Errorf("bad code point %q", p)
		}
		out[i] = rune(v)
	}
	return out, nil
}

func parseTestLine(dir, line string) (UpstreamTest, error) {
	var t UpstreamTest
	chunks := strings.Split(line, ";")
	if len(chunks) != 4 {
		return t, fmt.Errorf("want 4 fields")
	}
	fontFile := strings.Split(chunks[0], "@")[0]
	p := path.Join(dir, fontFile) // relative to <utils>/harfbuzz
	id := "hb/" + p
	if corpus.ByID(id) == nil {
		return t, fmt.Errorf("font %s not in corpus", id)
	}
	t.Line = line
	t.Expected = strings.TrimSpace(chunks[3])
	t.Guess = true
	c := &t.Case
	c.Font = id
	c.Len = -1
	c.Src = "upstream-test"

	fs := flag.NewFlagSet("options", flag.ContinueOnError)
	fs.SetOutput(io.Discard)
	noClusters := fs.Bool("no-clusters", false, "")
	noNames := fs.Bool("no-glyph-names", false, "")
	noPos := fs.Bool("no-positions", false, "")
	noAdv := fs.Bool("no-advances", false, "")
	showExt := fs.Bool("show-extents", false, "")
	showFlags := fs.Bool("show-flags", false, "")
	ned := fs.Bool("ned", false, "")
	feats := fs.String("features", "", "")
	fs.String("list-shapers", "", "")
	fs.String("shaper", "", "")
	fs.String("shapers", "", "")
	fs.Func("direction", "", func(s string) error {
		if s == "" {
			return fmt.Errorf("empty direction")
		}
		switch s[0] | 0x20 {
		case 'l':
			c.Dir = hbref.DirLTR
		case 'r':
			c.Dir = hbref.DirRTL
		case 't':
			c.Dir = hbref.DirTTB
		case 'b':
			c.Dir = hbref.DirBTT
		default:
			return fmt.Errorf("bad direction")
		}
		return nil
	})
	fs.StringVar(&c.Lang, "language", "", "")
	fs.Func("script", "", func(s string) error {
		sc, err := language.ParseScript(s)
		if err != nil {
			return err
		}
		c.Script = scriptString(uint32(sc))
		return nil
	})
	bot := fs.Bool("bot", false, "")
	eot := fs.Bool("eot", false, "")
	rdi := fs.Bool("remove-default-ignorables", false, "")
	pdi := fs.Bool("preserve-default-ignorables", false, "")
	fs.IntVar(&c.CL, "cluster-level", 0, "")
	utc := fs.Bool("unsafe-to-concat", false, "")
	sti := fs.Bool("safe-to-insert-tatweel", false, "")
	fs.IntVar(&c.Index, "face-index", 0, "")
	fs.Func("font-size", "", func(arg string) error {
		if arg == "upem" {
			return nil
		}
		var x, y int
		n, _ := fmt.Sscanf(arg, "%d %d", &x, &y)
		if n == 0 {
			return fmt.Errorf("bad font-size")
		}
		if n == 1 {
			y = x
		}
		c.ScaleX, c.ScaleY = int32(x), int32(y)
		return nil
	})
	fs.Func("font-ppem", "", func(arg string) error {
		var x, y int
		n, _ := fmt.Sscanf(arg, "%d %d", &x, &y)
		if n == 0 {
			return fmt.Errorf("bad font-ppem")
		}
		if n == 1 {
			y = x
		}
		c.PpemX, c.PpemY = uint16(x), uint16(y)
		return nil
	})
	var ptem float64
	fs.Float64Var(&ptem, "font-ptem", 0, "")
	vars := fs.String("variations", "", "")
	fs.String("font-funcs", "", "")
	fs.String("ft-load-flags", "", "")
	ub := fs.String("unicodes-before", "", "")
	ua := fs.String("unicodes-after", "", "")
	if err := fs.Parse(strings.Split(chunks[1], " ")); err != nil {
		return t, err
	}
	c.Ptem = float32(ptem)
	if *ned {
		*noClusters, *noAdv = true, true
	}
	if *noClusters {
		t.SerFlags |= hbref.SerializeNoClusters
	}
	if *noNames {
		t.SerFlags |= hbref.SerializeNoGlyphNames
	}
	if *noPos {
		t.SerFlags |= hbref.SerializeNoPositions
	}
	if *noAdv {
		t.SerFlags |= hbref.SerializeNoAdvances
	}
	if *showExt {
		t.SerFlags |= hbref.SerializeGlyphExtents
	}
	if *showFlags {
		t.SerFlags |= hbref.SerializeGlyphFlags
	}
	if *bot {
		c.Flags |= FBot
	}
	if *eot {
		c.Flags |= FEot
	}
	if *pdi {
		c.Flags |= FPreserveDI
	}
	if *rdi {
		c.Flags |= FRemoveDI
	}
	if *utc {
		c.Flags |= FUnsafeToConcat
	}
	if *sti {
		c.Flags |= FSafeToInsertTatweel
	}
	if s := strings.Trim(*feats, `"`); s != "" {
		for _, one := range strings.Split(s, ",") {
			f, err := harfbuzz.ParseFeature(one)
			if err != nil {
				return t, err
			}
			ft := Feat{Tag: f.Tag.String(), Value: f.Value, Start: f.Start, End: f.End}
			if f.End == harfbuzz.FeatureGlobalEnd {
				ft.End = -1
			}
			c.Feats = append(c.Feats, ft)
		}
	}
	if s := strings.Trim(*vars, `"`); s != "" {
		for _, one := range strings.Split(s, ",") {
			v, err := harfbuzz.ParseVariation(one)
			if err != nil {
				return t, err
			}
			c.Vars = append(c.Vars, Var{Tag: v.Tag.String(), Value: v.Value})
		}
	}
	var err error
	if c.Text, err = parseUnicodes(chunks[2]); err != nil {
		return t, err
	}
	if c.Before, err = parseUnicodes(*ub); err != nil {
		return t, err
	}
	if c.After, err = parseUnicodes(*ua); err != nil {
		return t, err
	}
	return t, nil
}

func scriptString(s uint32) string {
	if s == 0 {
		return ""
	}
	return string([]byte{byte(s >> 24), byte(s >> 16), byte(s >> 8), byte(s)})
}
