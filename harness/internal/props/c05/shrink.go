package c05

// Shrink reduces a violating case to a smaller one that still violates
// (greedy delta debugging over settings and text; at most budget re-judgings).
// still(case) must report whether the candidate is still a violation.
func Shrink(c Case, budget int, still func(*Case) bool) Case {
	try := func(cand Case) bool {
		if budget <= 0 {
			return false
		}
		budget--
		if still(&cand) {
			c = cand
			return true
		}
		return false
	}
	clone := func() Case {
		d := c
		d.Text = append([]rune(nil), c.Text...)
		d.Feats = append([]Feat(nil), c.Feats...)
		d.Vars = append([]Var(nil), c.Vars...)
		return d
	}
	// context: drop it by making the item the whole text
	if c.Off != 0 || c.Len >= 0 {
		d := clone()
		lo, hi := c.itemRange()
		d.Text = append([]rune(nil), c.Text[lo:hi]...)
		for i := range d.Feats {
			if d.Feats[i].Start > 0 {
				d.Feats[i].Start -= lo
				if d.Feats[i].Start < 0 {
					d.Feats[i].Start = 0
				}
			}
			if d.Feats[i].End >= 0 {
				d.Feats[i].End -= lo
				if d.Feats[i].End < 0 {
					d.Feats[i].End = 0
				}
			}
		}
		d.Off, d.Len = 0, -1
		try(d)
	}
	// features
	if len(c.Feats) > 0 {
		d := clone()
		d.Feats = nil
		if !try(d) {
			for i := len(c.Feats) - 1; i >= 0; i-- {
				if i >= len(c.Feats) {
					continue
				}
				d := clone()
				d.Feats = append(d.Feats[:i], d.Feats[i+1:]...)
				try(d)
			}
			for i := range c.Feats {
				if c.Feats[i].Start != 0 || c.Feats[i].End >= 0 {
					d := clone()
					d.Feats[i].Start, d.Feats[i].End = 0, -1
					try(d)
				}
			}
		}
	}
	// variations
	if len(c.Vars) > 0 {
		d := clone()
		d.Vars = nil
		if !try(d) {
			for i := len(c.Vars) - 1; i >= 0; i-- {
				if i >= len(c.Vars) {
					continue
				}
				d := clone()
				d.Vars = append(d.Vars[:i], d.Vars[i+1:]...)
				try(d)
			}
		}
	}
	// flags, cluster level, language, script, direction
	if c.Flags != FBot|FEot {
		d := clone()
		d.Flags = FBot | FEot
		if !try(d) {
			for bit := 1; bit < 128; bit <<= 1 {
				if c.Flags&bit != 0 {
					d := clone()
					d.Flags &^= bit
					try(d)
				}
			}
		}
	}
	if c.CL != 0 {
		d := clone()
		d.CL = 0
		try(d)
	}
	if c.Lang != "" {
		d := clone()
		d.Lang = ""
		try(d)
	}
	if c.Script != "" {
		d := clone()
		d.Script = ""
		try(d)
	}
	if c.Dir != 0 {
		d := clone()
		d.Dir = 0
		try(d)
	}
	// text: remove chunks, then single runes (only when the item is the whole text)
	if c.Off == 0 && c.Len < 0 {
		for size := len(c.Text) / 2; size >= 1; size /= 2 {
			for i := 0; i+size <= len(c.Text) && len(c.Text) > 1; {
				d := clone()
				d.Text = append(d.Text[:i], d.Text[i+size:]...)
				ranged := false
				for _, f := range d.Feats {
					if f.Start != 0 || f.End >= 0 {
						ranged = true
					}
				}
				if ranged || !try(d) {
					i += size
				}
			}
		}
	}
	return c
}
