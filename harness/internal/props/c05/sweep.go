package c05

import (
	"fmt"
	"sort"
	"sync"

	"github.com/go-text/typesetting/font/opentype/tables"
	ucd "github.com/go-text/typesetting/unicodedata"

	"verifharness/internal/gen"
	"verifharness/internal/hbref"
)

// Two deterministic, systematic streams that complement the random ones. Both
// are pure functions of the case index (independent of VERIF_SEED) and go
// through the normal Judge (skew classes, defect keys).

// ---------------------------------------------------------------------------
// (1) decomposition sweep

type decompItem struct {
	composed rune
	forms    [][]rune // fully decomposed, partially decomposed (if different), composed
	probe    []rune   // the face must map the composed form or the first part
}

var (
	decompOnce  sync.Once
	decompList  []decompItem // code points with a canonical decomposition (no Hangul)
	hangulItems []decompItem // sampled Hangul LV / LVT syllables
)

func fullNFD(r rune, depth int) []rune {
	if depth > 8 {
		return []rune{r}
	}
	a, b, ok := ucd.Decompose(r)
	if !ok {
		return []rune{r}
	}
	out := fullNFD(a, depth+1)
	if b != 0 {
		out = append(out, fullNFD(b, depth+1)...)
	}
	return out
}

func sameRunes(a, b []rune) bool {
	if len(a) != len(b) {
		return false
	}
	for i := range a {
		if a[i] != b[i] {
			return false
		}
	}
	return true
}

func decompInit() {
	decompOnce.Do(func() {
		for r := rune(0x80); r <= 0x2FFFF; r++ {
			if r >= ucd.HangulSBase && r < ucd.HangulSBase+ucd.HangulLCount*ucd.HangulNCount {
				continue
			}
			a, b, ok := ucd.Decompose(r)
			if !ok {
				continue
			}
			it := decompItem{composed: r}
			full := fullNFD(r, 0)
			it.forms = append(it.forms, full)
			if b != 0 {
				if part := []rune{a, b}; !sameRunes(part, full) {
					it.forms = append(it.forms, part)
				}
			}
			it.forms = append(it.forms, []rune{r})
			it.probe = []rune{r, full[0]}
			decompList = append(decompList, it)
		}
		// Hangul: every LV, and for every T all 19 L with 2 V (the V rotates
		// with L and T so that every V meets several partners)
		add := func(l, v, t int) {
			s := rune(ucd.HangulSBase + (l*ucd.HangulVCount+v)*ucd.HangulTCount + t)
			L, V := rune(ucd.HangulLBase+l), rune(ucd.HangulVBase+v)
			it := decompItem{composed: s}
			if t == 0 {
				it.forms = [][]rune{{L, V}, {s}}
			} else {
				T := rune(ucd.HangulTBase + t)
				lv := rune(ucd.HangulSBase + (l*ucd.HangulVCount+v)*ucd.HangulTCount)
				it.forms = [][]rune{{L, V, T}, {lv, T}, {s}}
			}
			it.probe = []rune{s, L}
			hangulItems = append(hangulItems, it)
		}
		for l := 0; l < ucd.HangulLCount; l++ {
			for v := 0; v < ucd.HangulVCount; v++ {
				add(l, v, 0)
			}
		}
		for t := 1; t < ucd.HangulTCount; t++ {
			for l := 0; l < ucd.HangulLCount; l++ {
				add(l, (l+t)%ucd.HangulVCount, t)
				add(l, (l*3+t*5+7)%ucd.HangulVCount, t)
			}
		}
	})
}

// DecompSweep lists the sweep cases of one face. perFaceCap bounds the number
// of non-Hangul code points (0 = all); the window rotates with faceIdx so
// that the corpus as a whole still covers every code point.
func DecompSweep(p *Pair, faceIdx, perFaceCap int) []Case {
	decompInit()
	fi := p.Info
	mapped := func(it *decompItem) bool {
		for _, r := range it.probe {
			if hasRune(fi, r) {
				return true
			}
		}
		return false
	}
	var items []*decompItem
	for i := range decompList {
		if mapped(&decompList[i]) {
			items = append(items, &decompList[i])
		}
	}
	if perFaceCap > 0 && len(items) > perFaceCap {
		// evenly spread sample with a face-dependent phase
		step := float64(len(items)) / float64(perFaceCap)
		phase := float64(faceIdx%97) / 97 * step
		sel := make([]*decompItem, 0, perFaceCap)
		for k := 0; k < perFaceCap; k++ {
			j := int(phase + float64(k)*step)
			if j >= len(items) {
				j = len(items) - 1
			}
			sel = append(sel, items[j])
		}
		items = sel
	}
	for i := range hangulItems {
		if mapped(&hangulItems[i]) {
			items = append(items, &hangulItems[i])
		}
	}
	var out []Case
	for n, it := range items {
		for _, form := range it.forms {
			base := Case{Font: p.File.ID, Index: p.Index, Text: form, Len: -1, Flags: FBot | FEot, Src: "vi:decomposition-sweep"}
			out = append(out, base) // native direction (guessed from the script)
			other := base
			nat := p.Resolve(&base).Dir
			switch {
			case n%2 == 0:
				other.Dir = hbref.DirTTB
			case nat == hbref.DirRTL:
				other.Dir = hbref.DirLTR
			default:
				other.Dir = hbref.DirRTL
			}
			out = append(out, other)
		}
	}
	return out
}

// ---------------------------------------------------------------------------
// (2) letter-mark pair sweep over gen.Alphabets

type pairItem struct {
	alphabet int
	mark     rune
}

var (
	pairOnce  sync.Once
	pairItems []pairItem
)

const pairVariants = 4 * 4 * 3 * 4 * 3 // order x direction x cluster level x face x letter choice

func pairInit() {
	pairOnce.Do(func() {
		for ai, a := range gen.Alphabets {
			seen := map[rune]bool{}
			for _, m := range a.Marks {
				if !seen[m] {
					seen[m] = true
					pairItems = append(pairItems, pairItem{ai, m})
				}
			}
		}
	})
}

// PairSweepItems is the number of (alphabet, mark) items; each has
// pairVariants cases.
func PairSweepItems() int { pairInit(); return len(pairItems) }

const pairFixedFace = "sys/DejaVuSans.ttf#0"

// PairSweepFaces picks, per alphabet, up to 3 faces that map at least 3 of the
// alphabet's first 6 letters and one of its non-joiner marks (first, middle
// and last of the covering faces).
func PairSweepFaces(faces []string) [][]string {
	out := make([][]string, len(gen.Alphabets))
	type cov struct {
		ref string
		fi  *FontInfo
	}
	var all []cov
	for _, ref := range faces {
		id, idx := SplitRef(ref)
		p, ok := Open(id, idx)
		if !ok {
			continue
		}
		all = append(all, cov{ref, p.Info})
		p.Close()
	}
	for ai, a := range gen.Alphabets {
		var c []string
		for _, f := range all {
			n := 0
			for k := 0; k < len(a.Letters) && k < 6; k++ {
				if hasRune(f.fi, a.Letters[k]) {
					n++
				}
			}
			hasMark := false
			for _, m := range a.Marks {
				if m > 0x2FF && m != 0x200D && m != 0x200C && hasRune(f.fi, m) {
					hasMark = true
					break
				}
			}
			if n >= 3 && hasMark {
				c = append(c, f.ref)
			}
		}
		sort.Strings(c)
		if len(c) > 3 {
			c = []string{c[0], c[len(c)/2], c[len(c)-1]}
		}
		out[ai] = c
	}
	return out
}

var pairDirs = [4]int{hbref.DirLTR, hbref.DirRTL, hbref.DirTTB, hbref.DirBTT}

// PairSweepCase builds variant v of item k; the face reference is returned
// separately so that the worker can keep faces open.
func PairSweepCase(k, v int, sweepFaces [][]string) (Case, string) {
	pairInit()
	it := pairItems[k]
	order, v := v%4, v/4
	dir, v := v%4, v/4
	cl, v := v%3, v/3
	facesel, v := v%4, v/4
	lsel := v % 3
	a := gen.Alphabets[it.alphabet]
	n := len(a.Letters)
	l1 := a.Letters[(k%7+lsel*n/3)%n]
	l2 := a.Letters[((k*7+3)%5+(2-lsel)*n/3)%n]
	var text []rune
	switch order {
	case 0:
		text = []rune{l1, it.mark, l2}
	case 1:
		text = []rune{it.mark, l1, l2, it.mark}
	case 2:
		// the same mark on both sides of a COMBINING GRAPHEME JOINER (equal combining classes)
		text = []rune{l1, it.mark, 0x034F, it.mark, l2}
	default:
		// two marks of the alphabet around a CGJ (any order of classes)
		m2 := a.Marks[(k+1+lsel)%len(a.Marks)]
		text = []rune{l1, it.mark, 0x034F, m2, l2}
	}
	ref := pairFixedFace
	if fs := sweepFaces[it.alphabet]; facesel < len(fs) {
		ref = fs[facesel]
	}
	id, idx := SplitRef(ref)
	return Case{Font: id, Index: idx, Text: text, Len: -1, Dir: pairDirs[dir], CL: cl, Flags: FBot | FEot, Src: "vii:pair-sweep:" + a.Name}, ref
}

// ---------------------------------------------------------------------------
// systematic multi-cluster texts for C18 (texts with interior boundaries)

// HasFractions reports whether the face has the three features automatic
// fractions need.
func HasFractions(fi *FontInfo) bool {
	n := 0
	for _, t := range fi.FeatTags {
		if t == "frac" || t == "numr" || t == "dnom" {
			n++
		}
	}
	return n == 3
}

// FractionTexts is a fixed list of digit strings around U+2044 FRACTION
// SLASH: single, chained and doubled slashes, slashes at the edges, with
// letters and spaces around.
func FractionTexts() [][]rune {
	const s = 0x2044
	raw := [][]rune{
		{'1', s, '2'}, {'1', '2', s, '3', '4'}, {'1', s, '2', s, '3'}, {'1', '2', s, '3', '4', s, '5', '6'},
		{'1', s, s, '2'}, {'1', s, '2', s, '3', s, '4'}, {s, '1'}, {'1', s}, {s}, {s, s}, {'1', s, '2', ' ', '3', s, '4'},
		{'a', '1', s, '2', 'b'}, {'1', s, '2', 'a', s, '3'}, {'7', '1', s, '2', s, '3', '9', 'x'}, {'1', s, 'a', s, '2'},
		{'3', ' ', '1', s, '2'}, {'1', '/', '2', s, '3'}, {'1', s, '2', '/', '3'}, {'0', s, '0', s, '0', s, '0', s, '0'},
		{'1', '2', '3', s, '4', '5', '6', s, '7', '8', '9', '0'}, {'1', s, '2', 0x301}, {'1', 0x200D, s, '2'},
		{0x661, s, 0x662, s, 0x663}, {0x967, s, 0x968}, {'1', s, '2', s}, {s, '1', s, '2'},
	}
	return raw
}

const MultiVariants = 2 * 2 * 4 * 3 // direction (LTR, RTL) x cluster level (0, 1) x face x letter choice

// MultiClusterCase builds variant v of the six-character text
// [letter mark letter letter mark letter] for (alphabet, mark) item k.
func MultiClusterCase(k, v int, sweepFaces [][]string) (Case, string) {
	pairInit()
	it := pairItems[k]
	dir, v := v%2, v/2
	cl, v := v%2, v/2
	facesel, v := v%4, v/4
	lsel := v % 3
	a := gen.Alphabets[it.alphabet]
	n := len(a.Letters)
	l := func(j int) rune { return a.Letters[((k+j*5)%7+((lsel+j)%3)*n/3)%n] }
	text := []rune{l(0), it.mark, l(1), l(2), it.mark, l(3)}
	ref := pairFixedFace
	if fs := sweepFaces[it.alphabet]; facesel < len(fs) {
		ref = fs[facesel]
	}
	id, idx := SplitRef(ref)
	return Case{Font: id, Index: idx, Text: text, Len: -1, Dir: pairDirs[dir], CL: cl, Flags: FBot | FEot, Src: "viii:multi-cluster-sweep:" + a.Name}, ref
}

// ---------------------------------------------------------------------------
// (4) lookup sweep: texts drawn from the coverage tables of the face's own
// GSUB / GPOS lookups. Random text rarely puts two glyphs of one rare lookup
// (alternates of a `rand` feature, a contextual rule, a pair adjustment) next
// to each other; here every lookup subtable contributes the runes that map to
// its covered glyphs, alone, doubled, in pairs and in triples. The choice of
// inputs reads the Go loader's tables; the verdict does not.

// LookupSweep lists the lookup-driven cases of one face (at most cap, 0 = 600).
func LookupSweep(p *Pair, faceIdx, cap int) []Case {
	if p.Go == nil {
		return nil
	}
	if cap <= 0 {
		cap = 600
	}
	fi := p.Info
	// reverse character map over the (capped) rune list of the face
	rev := map[tables.GlyphID]rune{}
	for _, r := range fi.Runes {
		if g, ok := p.Go.NominalGlyph(r); ok && g != 0 {
			if _, dup := rev[tables.GlyphID(g)]; !dup {
				rev[tables.GlyphID(g)] = r
			}
		}
	}
	if len(rev) == 0 {
		return nil
	}
	var gids []tables.GlyphID
	for g := range rev {
		gids = append(gids, g)
	}
	sort.Slice(gids, func(i, j int) bool { return gids[i] < gids[j] })
	var covs []tables.Coverage
	for _, l := range p.Go.GSUB.Lookups {
		for _, st := range l.Subtables {
			if cv := st.Cov(); cv != nil {
				covs = append(covs, cv)
			}
		}
	}
	for _, l := range p.Go.GPOS.Lookups {
		for _, st := range l.Subtables {
			if cv := st.Cov(); cv != nil {
				covs = append(covs, cv)
			}
		}
	}
	if len(covs) == 0 {
		return nil
	}
	var out []Case
	seen := map[string]bool{}
	add := func(text []rune, feats []Feat, dir, cl int) {
		k := fmt.Sprint(text, feats, dir, cl)
		if seen[k] {
			return
		}
		seen[k] = true
		out = append(out, Case{Font: p.File.ID, Index: p.Index, Text: append([]rune(nil), text...), Len: -1, Dir: dir, CL: cl, Feats: feats, Flags: FBot | FEot, Src: "x:lookup-sweep"})
	}
	// every feature of the font as a user feature (alternates, stylistic sets, ...)
	var all []Feat
	for _, t := range fi.FeatTags {
		if len(all) < 48 {
			all = append(all, Feat{Tag: t, Value: 1, Start: 0, End: -1})
		}
	}
	perCov := cap / len(covs)
	if perCov < 6 {
		perCov = 6
	}
	for ci, cv := range covs {
		if len(out) >= cap {
			// rotate: later faces start at later lookups so that the corpus as a whole covers them
			break
		}
		cv = covs[(ci+faceIdx)%len(covs)]
		// up to 4 covered glyphs that a rune maps to, spread over the coverage
		var rs []rune
		for _, g := range gids {
			if _, ok := cv.Index(g); ok {
				rs = append(rs, rev[g])
			}
		}
		if len(rs) == 0 {
			continue
		}
		if len(rs) > 4 {
			rs = []rune{rs[0], rs[len(rs)/3], rs[2*len(rs)/3], rs[len(rs)-1]}
		}
		n0 := len(out)
		for i, a := range rs {
			add([]rune{a, a}, nil, 0, 0)
			add([]rune{a, a, a}, nil, 0, 1)
			b := rs[(i+1)%len(rs)]
			add([]rune{a, b}, nil, 0, 0)
			add([]rune{a, b, a}, nil, 0, 0)
			add([]rune{a, ' ', b, b}, nil, 0, 1)
			if len(all) > 0 {
				add([]rune{a, b, a, b}, all, 0, 0)
			}
			if len(out)-n0 >= perCov {
				break
			}
		}
		if len(rs) >= 2 && len(out)-n0 < perCov+2 {
			add([]rune{rs[0], rs[1], rs[0]}, nil, hbref.DirRTL, 0)
			add([]rune{rs[0], rs[1]}, nil, hbref.DirTTB, 0)
		}
	}
	return out
}
