package c05

import (
	"fmt"
	"unicode"

	ot "github.com/go-text/typesetting/font/opentype"
	"github.com/go-text/typesetting/font/opentype/tables"
	"github.com/go-text/typesetting/harfbuzz"
	ucd "github.com/go-text/typesetting/unicodedata"

	"verifharness/internal/hbref"
)

// Skew classes: the reasons under which a case is inconclusive. Every class is
// a predicate over the INPUT (font bytes, text, settings) — never over "the
// outputs differ". Justifications: see the comment of each constant.
const (
	// (a) measured at start-up: upstream expectation lines that libharfbuzz
	// 6.0.0 does not reproduce mark (font, shaper category) as not authoritative.
	ClsDrift = "skew(a) measured drift: C 6.0.0 does not reproduce upstream expectations for this (font, shaper category)"
	// (b) measured at start-up: hb_unicode_* vs the port's tables.
	ClsUnicode = "skew(b) Unicode-version data: text has a code point whose hb_unicode_* data differs from the port's tables"
	// (c1) HarfBuzz 6.0.0 only maps ASCII through a Macintosh-platform cmap;
	// go-text decodes the Mac encodings (upstream disables CMAP-3.tests for
	// this reason: "Non-Unicode cmap").
	ClsMacCmap = "skew(c) capability: font has only Macintosh-platform cmap subtables"
	// (c2) go-text reports a rune whose cmap entry is glyph 0 as mapped,
	// HarfBuzz as missing (DESIGN C10: both readings satisfy the cmap
	// statement). It changes .notdef handling, space / dotted-circle / hyphen
	// fallbacks (which consult U+0020, U+25CC, U+2010) and presentation-form
	// fallbacks.
	ClsGlyph0 = "skew(c) capability: cmap maps a consulted code point to glyph 0 (port: mapped, HarfBuzz: missing)"
	// (c3) broken-cluster handling of the syllabic shapers changed upstream
	// after 6.0.0 (dotted-circle placement around U+FFFF / unassigned).
	ClsUnassign = "skew(c) capability: unassigned / noncharacter code point in a syllabic-shaper run (broken-cluster handling changed after 6.0.0)"
	// (c4) toy fonts with unbounded glyph growth: either side stopped at its
	// own length / operation budget, the cut-off point is not specified.
	ClsGrowth = "skew(c) capability: pathological growth, a length/ops budget was hit"
	// (c5) 6.0.0 is not self-consistent here: for a variable font shaped
	// vertically it returns different vertical origins for the default
	// instance depending on whether coordinates were set (e.g. Selawik-VF ','
	// TTB: y offset -614 without coordinates, 0 with wght=400=default); the
	// glyf phantom-point / v-origin code was reworked upstream after 6.0.0.
	ClsVertVar = "skew(c) capability: vertical direction with variation coordinates set (6.0.0 v-origin under variations is not self-consistent)"
	// (c6) 6.0.0 synthesises broken ligature lookups in Arabic fallback shaping
	// when a ligature of a set is missing from the font: e.g. IBM3161-bitmap
	// LAM+ALEF gives [U+FE8E, U+FC3F "lam-jeem"] and LAM+SHEEN gives
	// [U+FEB6, U+FC3F] (the first available ligature replaces LAM whatever
	// follows). The port gives U+FEFB resp. U+FEDF. Applies when the font has
	// no isol/fina/medi/init GSUB feature (fallback plan) and maps a first
	// component of the fallback ligature tables.
	ClsArabFallback = "skew(c) capability: Arabic fallback shaping with synthesised ligature lookups (6.0.0 builds wrong component lists)"
	// (c7) go-text reads glyph extents from embedded monochrome bitmaps
	// (EBDT/EBLC, bdat/bloc); HarfBuzz's ot font funcs only know outlines, sbix
	// and CBDT, so for a font without glyf/CFF/CFF2 it has no extents at all
	// and skips fallback mark positioning / extents-based vertical origins.
	ClsBitmapOnly = "skew(c) capability: font without outline tables (bitmap only), extents consulted (mark in text or vertical direction)"
	// (c14) Tifinagh can be written in either direction: upstream added it to
	// the scripts without a native horizontal direction (next to Old Hungarian,
	// Old Italic and Runic, issue #1000 list) after 6.0.0, and the port has it.
	// For an RTL Tifinagh run 6.0.0 therefore reverses graphemes (LTR is
	// "native"), the port shapes RTL directly and reverses glyphs at the end:
	// DejaVuSans U+2D30 U+0302 U+2D31 RTL gives [b2, b1, mark] in 6.0.0 and
	// [b2, mark, b1] in the port. Found by the letter-mark pair sweep (U+2D7F).
	ClsTifinaghRTL = "skew(c) capability: right-to-left Tifinagh run (Tifinagh became a script without native direction after 6.0.0)"
	// (c7b) HarfBuzz takes the extents of a COLRv1 base glyph from the COLR
	// ClipList (hb_ot_get_glyph_extents asks COLR before glyf); go-text does
	// not implement COLR, so an empty 'glyf' entry has zero extents. Witness:
	// hb/fonts/adwaita.ttf gid 2 "icon0": 6.0.0 {180 960 1060 -1220}, port
	// {0 0 0 0} (FreeType and the glyf table agree with the port: the glyph has
	// no outline). A missing feature, not a defect of the shaper.
	ClsCOLR = "skew(c) capability: font with a COLR table, extents consulted (HarfBuzz reads COLRv1 clip boxes, go-text has no COLR support)"
	// (c8) the per-character USE categories are regenerated upstream for every
	// release. (A broader class "USE run with a mark-initial cluster" was tried
	// and dropped: with it disabled 6.2M thorough cases show no USE
	// disagreement outside this list.) Observed list of code points whose category differs between
	// 6.0.0 and the port's table: U+07FD NKO DANTAYALAN (port: not in the table
	// = O; 6.0.0 inserts a dotted circle before it like for a vowel modifier),
	// U+0FC6 TIBETAN SYMBOL PADMA GDAN (6.0.0 ends the cluster after it).
	ClsUSEData = "skew(c) capability: USE-shaper run containing a code point whose USE category changed after 6.0.0 (U+07FD, U+0FC6)"
	// tolerance, not a skew class proper: values interpolated from gvar / HVAR
	// / MVAR at non-default coordinates are compared with a tolerance of one
	// font unit (DESIGN C10); a difference within the tolerance is counted
	// here, a larger one is a violation.
	// (c9) upstream added an early exit to PairPosFormat2 ("if (!klass2) return
	// false", the check the port has, next to the references to issues #3824 /
	// #3888) after 6.0.0: 6.0.0 still consumes a pair whose second glyph has
	// class 0 (skipping it when ValueFormat2 != 0 and applying the class-0
	// column). Witness: aots gpos2_2_font1, glyphs [18,18,19], feature "test".
	ClsPairPos2 = "skew(c) capability: font has a class-based PairPos subtable where a class-0 second glyph matters (early exit added upstream after 6.0.0)"
	// (c10) MarkBasePos base search: upstream issue #4124 (cited in the port's
	// applyGPOSMarkToBase, fixed after 6.0.0) changed which glyph of a
	// MultipleSubst sequence a following mark attaches to. Witness: Newa
	// U+11410 U+11440 U+11442 (O-sign split in two glyphs, virama after it):
	// 6.0.0 leaves the virama unattached, the port attaches it to the base.
	// The rule cuts both ways: repo/Amiri-Regular U+06D2 U+064D U+0654 U+06A9
	// U+0655 LTR — the second glyph of the split yeh barree IS in the base
	// coverage but has no anchor for the mark class: the newer rule stops at it
	// (mark unattached), 6.0.0 skips it and attaches to the first glyph.
	// (The port's stale base cache, c05 patch 5 / KeyLastBaseCache, looks the
	// same from here — mark attached by 6.0.0, not by the port — and cannot be
	// told apart in this class; C18 exposes it as an unsafe cut.)
	// Predicate (font + glyph sequence, not "they differ"): a cluster of the
	// output has more glyphs than characters and a GDEF mark glyph follows two
	// or more non-mark glyphs of that cluster.
	ClsMarkAfterMultiple = "skew(c) capability: mark after a MultipleSubst sequence (MarkBasePos base search changed upstream after 6.0.0, issue #4124)"
	// (c11) base search of MarkBasePos / MarkLigPos when a glyph between the mark
	// and its base does not carry the lookup's feature mask (a user feature
	// given another value on a sub-range, the same tag listed twice with
	// different scopes, or a shaper-internal per-syllable form feature forced by
	// the user). 6.0.0 searches with skippy_iter.prev(), which gives up at the
	// first glyph failing the mask test (NOT_MATCH) and leaves the mark
	// unattached; upstream later rewrote the search as a plain backwards loop
	// ("We don't use skippy_iter.prev() to avoid O(n^2) behavior", the code the
	// port has) that passes over such glyphs. Established with a trace of the
	// port on a scratch worktree: Hebrew U+05E9 U+05BC U+05C1 U+05B8, cluster
	// level 2, mark[2:3]=0 — the shin dot (a base per GDEF in that font) lacks
	// the mask bit 0x10 and is passed over, dagesh and qamats attach to the shin
	// (@209,13 / @127,0); 6.0.0 stops at it (all marks @0,0, the same as
	// without the feature where the shin dot is found as a non-covered base).
	// Other witnesses: aots gpos4_lookupflag_f1 test=1,test[2:3]=0; Latin
	// ccmp[1:3]=0,ccmp=1 (duplicate entries merge into a global feature whose
	// shared global bit is then cleared on the range); Devanagari half=1.
	// Ranged kern / liga (no base search) agree on both sides.
	ClsFeatureMerge = "skew(c) capability: mark attachment base search across glyphs without the lookup mask (ranged / duplicated / forced internal user feature; 6.0.0 stops, newer upstream passes over)"
	// (c8) AAT user features with a cluster range: hb_aat_map_builder_t::add_feature of
	// 6.0.0 takes (tag, value) and applies the setting to the whole buffer; upstream 7.0
	// and the port compile one AAT map per range. Witness: Courier.dfont#3,
	// "fffff…flower." with liga[5:25]=3: 6.0.0 ligates from cluster 0 (exactly as with a
	// global liga=3; without the feature nothing ligates), the port from cluster 5.
	ClsAATRanged   = "skew(c) capability: AAT (morx) user feature with a cluster range (6.0.0 applies it to the whole buffer, 7.0+ and the port per range)"
	ClsVarRounding = "tolerance: interpolated values under variation coordinates differ by at most 1 font unit (offsets of stacked marks: 1 per glyph of the cluster)"
	ClsGoPanic     = "go side panicked (C01)"
	ClsCFail       = "reference failed: hb_shape_full returned false"
)

// features the shapers enable on their own (hb-ot-shape.cc common and
// horizontal features, fraction features, and the complex shapers' lists)
var shaperFeatures = map[string]bool{"abvm": true, "blwm": true, "ccmp": true, "locl": true, "mark": true, "mkmk": true, "rlig": true,
	"calt": true, "clig": true, "curs": true, "dist": true, "kern": true, "liga": true, "rclt": true, "rvrn": true, "frac": true, "numr": true,
	"dnom": true, "rand": true, "vert": true, "ltra": true, "ltrm": true, "rtla": true, "rtlm": true, "trak": true, "Harf": true, "HARF": true,
	"Buzz": true, "BUZZ": true,
	"isol": true, "fina": true, "fin2": true, "fin3": true, "medi": true, "med2": true, "init": true, "mset": true, "stch": true,
	"ljmo": true, "vjmo": true, "tjmo": true,
	"abvs": true, "blws": true, "haln": true, "pres": true, "psts": true, "vatu": true, "cjct": true, "rkrf": true, "akhn": true, "nukt": true,
	"rphf": true, "pref": true, "blwf": true, "abvf": true, "half": true, "pstf": true, "cfar": true}

var internalFormFeatures = map[string]bool{"half": true, "pref": true, "blwf": true, "pstf": true, "rphf": true, "nukt": true, "akhn": true,
	"rkrf": true, "vatu": true, "cjct": true, "abvf": true, "cfar": true, "isol": true, "fina": true, "fin2": true, "fin3": true, "medi": true,
	"med2": true, "init": true, "ljmo": true, "vjmo": true, "tjmo": true}

// stdAssigned reports whether r is an assigned, non-noncharacter code point
// according to the Go standard library's Unicode tables (15.0.0, the same
// version as HarfBuzz 6.0.0) — a fact about the INPUT independent of both
// shapers.
func stdAssigned(r rune) bool {
	if r < 0 || r > 0x10FFFF {
		return false
	}
	if r&0xFFFE == 0xFFFE || (r >= 0xFDD0 && r <= 0xFDEF) {
		return false
	}
	return unicode.In(r, unicode.L, unicode.M, unicode.N, unicode.P, unicode.S, unicode.Z, unicode.C)
}

// Verdict of one comparison.
type Verdict struct {
	Kind       string // "equal" | "inconclusive" | "violated"
	Class      string // skew class for inconclusive
	Differ     bool   // outputs differ (recorded even inside a skew class)
	Key, Msg   string // for violated
	RS         Resolved
	Cat        string
	Go, C      []G
	NonTrivial bool
}

// budget observation through the verif stage hook (single-goroutine workers)
var goBudgetHit bool

func init() {
	harfbuzz.VerifObserver = func(s harfbuzz.VerifStage) {
		if s.MaxOps <= 0 || (s.MaxLen > 0 && s.LenInfo >= s.MaxLen) {
			goBudgetHit = true
		}
	}
}

// consulted lists the code points the shapers may look up in the cmap for the
// item: the runes themselves, their canonical decompositions (recursively) and
// the compositions of adjacent pairs.
func consulted(item []rune, f func(rune) bool) bool {
	var dec func(r rune, depth int) bool
	dec = func(r rune, depth int) bool {
		if f(r) {
			return true
		}
		if depth > 4 {
			return false
		}
		if a, b, ok := ucd.Decompose(r); ok {
			if dec(a, depth+1) {
				return true
			}
			if b != 0 && dec(b, depth+1) {
				return true
			}
		}
		return false
	}
	for i, r := range item {
		if dec(r, 0) {
			return true
		}
		if i > 0 {
			if ab, ok := ucd.Compose(item[i-1], r); ok && f(ab) {
				return true
			}
		}
	}
	return false
}

// InputSkew returns the first skew class the INPUT (font + text + settings)
// belongs to, or "". It does not look at any shaping output.
func InputSkew(p *Pair, c *Case, rs Resolved, cat string, sk *Skew) string {
	fi := p.Info
	if sk != nil && sk.Drift[DriftKey(p.Ref(), cat, fi.Morx)] > 0 {
		return ClsDrift
	}
	item := c.Item()
	ctxLo, ctxHi := c.itemRange()
	// the item plus the context runes both shapers look at
	lo, hi := ctxLo-5, ctxHi+5
	if lo < 0 {
		lo = 0
	}
	if hi > len(c.Text) {
		hi = len(c.Text)
	}
	if sk != nil {
		for _, r := range c.Text[lo:hi] {
			if sk.UniSkew(r) != 0 {
				return ClsUnicode
			}
		}
	}
	if fi.MacOnly {
		return ClsMacCmap
	}
	if len(fi.Zero) > 0 {
		if fi.ZeroCommon {
			return ClsGlyph0
		}
		if fi.ZeroForms && (cat == "arabic" || cat == "hebrew" || cat == "thai") {
			return ClsGlyph0
		}
		if consulted(item, func(r rune) bool { return fi.Zero[r] }) {
			return ClsGlyph0
		}
	}
	if Syllabic(cat) {
		for _, r := range c.Text[lo:hi] {
			if !stdAssigned(r) {
				return ClsUnassign
			}
		}
	}
	if fi.Variable && len(c.Vars) > 0 && (rs.Dir == hbref.DirTTB || rs.Dir == hbref.DirBTT) {
		return ClsVertVar
	}
	if cat == "arabic" && rs.Script == hbref.Tag("Arab") && !fi.ArabicGSUB && fi.ArabicFallbackLig {
		return ClsArabFallback
	}
	vertical := rs.Dir == hbref.DirTTB || rs.Dir == hbref.DirBTT
	if rs.Script == hbref.Tag("Tfng") && rs.Dir == hbref.DirRTL {
		return ClsTifinaghRTL
	}
	if fi.COLR {
		if vertical {
			return ClsCOLR
		}
		for _, r := range item {
			if unicode.In(r, unicode.M) {
				return ClsCOLR
			}
		}
	}
	if fi.NoOutlines {
		if vertical {
			return ClsBitmapOnly
		}
		for _, r := range item {
			if unicode.In(r, unicode.M) {
				return ClsBitmapOnly
			}
		}
	}
	if fi.PairPos2Class0 && len(item) > 1 {
		return ClsPairPos2
	}
	for i, f := range c.Feats {
		ranged := f.Start != 0 || f.End >= 0
		if ranged && fi.Morx && !fi.GSUB {
			return ClsAATRanged
		}
		// (i) a range that gives a shaper-enabled feature another value (0, or an alternate index) than outside the range
		if ranged && f.Value != 1 && shaperFeatures[f.Tag] && fi.AttachTags[f.Tag] {
			return ClsFeatureMerge
		}
		// (iii) a shaper-internal per-syllable form feature forced on, or ranged
		if internalFormFeatures[f.Tag] && (f.Value != 0 || ranged) && cat != "default" {
			return ClsFeatureMerge
		}
		for _, g := range c.Feats[:i] {
			granged := g.Start != 0 || g.End >= 0
			// (i)/(ii) same tag listed twice with different scope and different value
			if g.Tag == f.Tag && granged != ranged && g.Value != f.Value {
				return ClsFeatureMerge
			}
			// (ii') same tag on two ranges: the glyphs between the ranges lack the lookup
			// mask, and a mark of one range finds its base in the other across them
			// (gpos4_lookupflag_f1, test[3:7]=1 test[0:2]=1: the port attaches the mark of
			// cluster 3 to the base of cluster 1 over the unmasked glyph of cluster 2;
			// 6.0.0 stops at that glyph; a single range never attaches on either side)
			if g.Tag == f.Tag && granged && ranged {
				return ClsFeatureMerge
			}
		}
	}
	if cat == "use" {
		for _, r := range item {
			if r == 0x07FD || r == 0x0FC6 {
				return ClsUSEData
			}
		}
	}
	return ""
}

// Port defects found while building the monitor. They keep firing as
// violations, each under ONE stable key, until fixed in /repo or listed in
// known_findings.json. A defect key is only used when its predicate (a
// property of the font / input plus the shape of the difference) holds;
// everything else gets the generic per-font key.
const (
	// font/opentype/tables PairPos.Sanitize / SinglePos.Sanitize reject tables
	// HarfBuzz accepts and font.newGPOS then drops the WHOLE table.
	KeyGPOSDropped = "C05/defect/GPOS table dropped by the font loader (Sanitize stricter than HarfBuzz)"
	KeyGSUBDropped = "C05/defect/GSUB table dropped by the font loader (Sanitize stricter than HarfBuzz)"
	// harfbuzz/ot_layout.go reverseGraphemes merges clusters when
	// ClusterLevel == MonotoneGraphemes; upstream merges when it is
	// MONOTONE_CHARACTERS, so level 1 output is not monotone in the port.
	KeyReverseGraphemes = "C05/defect/reverseGraphemes does not merge clusters at cluster level 1 (MonotoneCharacters)"
	// font/glyphs.go getGlyphExtents: an empty glyf glyph gets XBearing = lsb
	// (upstream: zero extents); visible through fallback mark positioning.
	KeyEmptyExtents = "C05/defect/extents of an empty glyf glyph are not zero (fallback mark positioning shifted)"
	// harfbuzz/ot_layout.go getFeatureLookupsWithVar returns nil (upstream: the
	// default feature) for a feature that has no substitute in the matching
	// FeatureVariations record: every other feature loses its lookups.
	KeyFeatureVariations = "C05/defect/features without a substitute are dropped when a FeatureVariations record matches"
	// harfbuzz/ot_arabic.go reorderMarks: newCc is mcc26 in both branches
	// (upstream: ccc 220 -> class 22, ccc 230 -> class 26).
	KeyArabicMCM = "C05/defect/Arabic modifier combining marks with ccc 220 are renumbered to class 26 (upstream 22)"
	// harfbuzz/ot_shape_fallback.go spaceFigure: missing break, the last
	// mapped digit's advance is used (upstream: the first).
	KeyFigureSpace = "C05/defect/U+2007 FIGURE SPACE fallback takes the advance of the last mapped digit (upstream: first)"
	// font/metrics.go GlyphVOrigin: extents.YBearing + diff/2 in floating point
	// truncated toward zero (upstream: integer diff >> 1).
	KeyVOriginRound = "C05/defect/vertical origin fallback rounds toward zero (upstream floors), y offset off by one"
	// font: GlyphExtents fails where the reference returns extents (seen:
	// CFF2 glyphs when no coordinates are set), so fallback mark positioning
	// and extents-based vertical origins are skipped.
	// harfbuzz/ot_myanmar.go consonantFlagsMyanmar: `myaSM_ex_Ra` is or-ed in
	// without `1 <<`, so category Ra (U+1004, U+101B, U+105A) is not a
	// consonant and base detection / reordering go wrong.
	KeyMyanmarRa = "C05/defect/Myanmar consonant flags wrong: Ra missing, categories 0-3 (incl. dot below) counted (1<< missing in consonantFlagsMyanmar)"
	// font: extents of a non-empty glyph differ from the reference (decoded
	// metrics, C10's domain) and shift fallback mark positioning.
	KeyExtentsDiffer = "C05/defect/GlyphExtents of a non-empty glyph differ from the reference (fallback mark positioning shifted)"
	// harfbuzz/ot_layout_gpos.go: the base cache (lastBase / lastBaseUntil) is
	// shared by applyGPOSMarkToLigature and applyGPOSMarkToBase and is only
	// reset once per table (otApplyContext.reset), not per lookup (upstream
	// resets last_base / last_base_until in set_lookup_mask). A MarkLigPos
	// lookup that stops at the second glyph of a MultipleSubst sequence leaves
	// that glyph cached, and the following MarkBasePos lookup (which would skip
	// it: issue #4124 rule) does not search again, so the mark stays
	// unattached. Confirmed with a trace on a scratch worktree (lookup 4
	// MarkLig sets lastBase=1,until=2; lookup 5 MarkBase enters with them). Witness: Estedad-VF "\u0628\u0650\u064A" alone: kasra @0,0 in
	// the port, @252,-486 in 6.0.0 — and in the port too when other text
	// precedes (C18 sees the same thing as an unsafe cut).
	KeyLastBaseCache  = "C05/defect/mark left unattached after a MultipleSubst sequence (stale lastBase cache shared by MarkLigPos and MarkBasePos)"
	KeyExtentsMissing = "C05/defect/GlyphExtents fails where the reference has extents (fallback mark positioning / vertical origin skipped)"
)

// Arabic modifier combining marks (hb-ot-shaper-arabic.cc) with ccc 220.
var arabicMCM220 = map[rune]bool{0x0655: true, 0x06E3: true, 0x08CF: true, 0x08D3: true}

// defectKey recognises the known port defects.
func defectKey(p *Pair, c *Case, v *Verdict) string {
	fi := p.Info
	kind := DiffKind(v.Go, v.C)
	ranged := false
	for _, f := range c.Feats {
		if f.Start != 0 || f.End >= 0 {
			ranged = true
		}
	}
	goMonotone := true
	for i := 1; i < len(v.Go); i++ {
		back := v.RS.Dir == hbref.DirRTL || v.RS.Dir == hbref.DirBTT
		if v.Go[i-1].Cluster != v.Go[i].Cluster && (v.Go[i-1].Cluster < v.Go[i].Cluster) == back {
			goMonotone = false
		}
	}
	if (kind == "cluster" || (ranged && !goMonotone)) && c.CL == 1 {
		// the defect needs a run whose direction is not the native one
		nat := p.Resolve(&Case{Font: c.Font, Index: c.Index, Text: c.Text, Off: c.Off, Len: c.Len, Script: scriptString(v.RS.Script)})
		if v.RS.Dir == hbref.DirBTT || ((v.RS.Dir == hbref.DirLTR || v.RS.Dir == hbref.DirRTL) && v.RS.Dir != nat.Dir) {
			return KeyReverseGraphemes
		}
	}
	if kind == "advance" {
		// every glyph whose advance differs stands for a U+2007
		only := true
		for i := range v.Go {
			if v.Go[i].XAdv != v.C[i].XAdv || v.Go[i].YAdv != v.C[i].YAdv {
				if cl := v.Go[i].Cluster; cl < 0 || cl >= len(c.Text) || c.Text[cl] != 0x2007 {
					only = false
				}
			}
		}
		if only {
			return KeyFigureSpace
		}
	}
	if fi.GoGPOSDropped {
		return KeyGPOSDropped
	}
	if fi.GoGSUBDropped {
		return KeyGSUBDropped
	}
	{
		// a record can match the default instance too (no coordinates set)
		coords := p.goFont(c).Face().Coords()
		if p.Go.GSUB.FindVariationIndex(coords) >= 0 || p.Go.GPOS.FindVariationIndex(coords) >= 0 {
			return KeyFeatureVariations
		}
	}
	if v.Cat == "arabic" {
		// the defect puts a below mark above (y offsets differ) or changes the
		// mark order; a pure x-offset difference is something else
		onlyX := kind == "offset"
		if onlyX {
			for i := range v.Go {
				if v.Go[i].YOff != v.C[i].YOff {
					onlyX = false
				}
			}
		}
		for _, r := range c.Item() {
			if arabicMCM220[r] && !onlyX {
				return KeyArabicMCM
			}
		}
	}
	if v.Cat == "myanmar" {
		for _, r := range c.Item() {
			// Ra-class letters (not consonants any more) and the dot below,
			// category 3 (a consonant by accident: the flag constant sets bits 0..3)
			// (U+1037 and the nuktas, ccc 7, which share that category)
			if r == 0x1004 || r == 0x101B || r == 0x105A || r == 0x1037 || ucd.LookupCombiningClass(r) == 7 {
				return KeyMyanmarRa
			}
		}
	}
	hf := p.goFont(c)
	for _, g := range v.C {
		ce, cok := p.CFont.GlyphExtents(g.GID)
		ge, gok := hf.GlyphExtents(ot.GID(g.GID))
		if cok && !gok && int(g.GID) < fi.NGlyphs {
			return KeyExtentsMissing
		}
		if kind == "offset" && cok && gok && ce.Width == 0 && ce.Height == 0 && ge.Width == 0 && ge.Height == 0 &&
			(ce.XBearing != ge.XBearing || ce.YBearing != ge.YBearing) {
			return KeyEmptyExtents
		}
		if kind == "offset" && len(c.Vars) == 0 && cok && gok && (ce.Width != 0 || ce.Height != 0) &&
			(ce.XBearing != ge.XBearing || ce.YBearing != ge.YBearing || ce.Width != ge.Width || ce.Height != ge.Height) {
			return KeyExtentsDiffer
		}
	}
	if kind == "offset" && (v.RS.Dir == hbref.DirTTB || v.RS.Dir == hbref.DirBTT) {
		off1 := true
		for i := range v.Go {
			d := v.Go[i].YOff - v.C[i].YOff
			if v.Go[i].XOff != v.C[i].XOff || d < -1 || d > 1 {
				off1 = false
			}
		}
		if off1 {
			return KeyVOriginRound
		}
	}
	return ""
}

// pairPos2Shadowed: some adjacent glyph pair (g1, g2) of the sequence meets a
// PairPosFormat2 subtable that covers g1 while g2 has class 0 there, and a
// later pair subtable of the same lookup covers g1 too: 6.0.0 stops at the
// first subtable, upstream after the early exit continues to the later one.
func pairPos2Shadowed(p *Pair, gs []G) bool {
	for i := 0; i+1 < len(gs); i++ {
		g1 := tables.GlyphID(gs[i].GID)
		for _, sh := range p.Info.PairPos2Shadow {
			for k, st := range sh {
				d, ok := st.Data.(tables.PairPosData2)
				if !ok {
					continue
				}
				if _, cov := d.Cov().Index(g1); !cov {
					continue
				}
				// next glyph (marks may be skipped by the lookup flag: try the
				// next two glyphs)
				for n := i + 1; n < len(gs) && n <= i+2; n++ {
					if _, listed := d.ClassDef2.Class(tables.GlyphID(gs[n].GID)); listed {
						continue
					}
					for _, later := range sh[k+1:] {
						if _, cov := later.Data.Cov().Index(g1); cov {
							return true
						}
					}
				}
			}
		}
	}
	return false
}

// pairPos2OverIgnorable: another face of ClsPairPos2. With default ignorables preserved,
// a visible ignorable (soft hyphen ...) is passed over when a pair lookup looks for its
// second glyph. 6.0.0 consumes a class-based pair whose second glyph has class 0 and
// moves on to that second glyph, so the ignorable in between never becomes the first glyph
// of a pair; the port (early exit of newer upstream) declines the pair, steps onto the
// ignorable and kerns it with what follows. Witness: SourceSansPro-Regular.otf, U+0041
// U+00AD U+03A4 with PRESERVE_DEFAULT_IGNORABLES: hyphen advance 311 (6.0.0) / 264 (port);
// the same text with U+002D, or with a Latin T (listed in the second class definition),
// agrees. Condition: the flag, a default ignorable in the item, and a glyph of the output
// covered by a format 2 pair subtable.
func pairPos2OverIgnorable(p *Pair, c *Case, gs []G) bool {
	if c.Flags&FPreserveDI == 0 {
		return false
	}
	ign := false
	for _, r := range c.Item() {
		if harfbuzz.IsDefaultIgnorable(r) {
			ign = true
		}
	}
	if !ign {
		return false
	}
	found := false
	func() {
		defer func() { recover() }()
		for _, lk := range p.Go.GPOS.Lookups {
			for _, st := range lk.Subtables {
				pp, ok := st.(tables.PairPos)
				if !ok {
					continue
				}
				d, ok := pp.Data.(tables.PairPosData2)
				if !ok {
					continue
				}
				for _, g := range gs {
					if _, cov := d.Cov().Index(tables.GlyphID(g.GID)); cov {
						found = true
						return
					}
				}
			}
		}
	}()
	return found
}

// markAfterMultiple: see ClsMarkAfterMultiple. A mark glyph whose nearest
// preceding non-mark glyph lies in a cluster that has more non-mark glyphs
// than non-mark characters (a multiple substitution produced it).
func markAfterMultiple(p *Pair, c *Case, dir int, out []G) bool {
	if p.Go.GDEF.GlyphClassDef == nil {
		return false
	}
	// the logical order GPOS worked in is the output order or its reverse,
	// depending on direction and script: try both
	if dir >= 0 {
		rev := make([]G, len(out))
		for i, g := range out {
			rev[len(out)-1-i] = g
		}
		if markAfterMultiple(p, c, -1, rev) {
			return true
		}
	}
	gs := out
	_, hi := c.itemRange()
	isMark := func(g G) bool {
		cl, _ := p.Go.GDEF.GlyphClassDef.Class(tables.GlyphID(g.GID))
		return cl == 3
	}
	multiplied := func(cv int) bool {
		next := hi
		glyphs := 0
		for _, g := range gs {
			if g.Cluster > cv && g.Cluster < next {
				next = g.Cluster
			}
			if g.Cluster == cv && !isMark(g) {
				glyphs++
			}
		}
		if cv < 0 || cv >= len(c.Text) || next > len(c.Text) {
			return false
		}
		chars := 0
		for _, r := range c.Text[cv:next] {
			if !unicode.In(r, unicode.M) {
				chars++
			}
		}
		return glyphs > chars && glyphs >= 2
	}
	for k := 1; k < len(gs); k++ {
		if !isMark(gs[k]) {
			continue
		}
		for b := k - 1; b >= 0; b-- {
			if !isMark(gs[b]) {
				if multiplied(gs[b].Cluster) {
					return true
				}
				break
			}
		}
	}
	return false
}

// within1 reports whether two outputs have the same glyphs and clusters and
// every advance / offset differs by at most one unit.
func within1(a, b []G) bool {
	if len(a) != len(b) {
		return false
	}
	d1 := func(x, y int32) bool { return x-y >= -1 && x-y <= 1 }
	// an offset placed by fallback mark positioning is a sum of interpolated extents (the
	// base, the marks stacked before it, the mark itself), each within one unit: the bound
	// of an offset is the number of glyphs of its cluster
	per := map[int]int32{}
	for i := range a {
		per[a[i].Cluster]++
	}
	dn := func(x, y, n int32) bool { return x-y >= -n && x-y <= n }
	for i := range a {
		n := per[a[i].Cluster]
		if a[i].GID != b[i].GID || a[i].Cluster != b[i].Cluster || !d1(a[i].XAdv, b[i].XAdv) || !d1(a[i].YAdv, b[i].YAdv) ||
			!dn(a[i].XOff, b[i].XOff, n) || !dn(a[i].YOff, b[i].YOff, n) {
			return false
		}
	}
	return true
}

// Judge runs both shapers on the case and compares.
func Judge(p *Pair, c *Case, sk *Skew) Verdict {
	var v Verdict
	v.RS = p.Resolve(c)
	v.Cat = ShaperCategory(v.RS.Script, v.RS.Dir)
	cls := InputSkew(p, c, v.RS, v.Cat, sk)

	goBudgetHit = false
	var pv any
	var where string
	v.Go, pv, where = p.ShapeGo(c, v.RS)
	hit := goBudgetHit
	if pv != nil {
		v.Kind, v.Class = "inconclusive", ClsGoPanic
		v.Msg = fmt.Sprintf("%v at %s", pv, where)
		return v
	}
	if d := p.ShapeGoReused(c, v.RS, v.Go); d != "" {
		v.Kind, v.NonTrivial, v.Differ = "violated", true, true
		v.Key = "C05/reused-buffer/" + v.Cat + "/output depends on the feature lists the buffer served before"
		v.Msg = fmt.Sprintf("a Buffer that served the same text under other feature lists (all global / half-open ranges / none) shapes it differently than a new Buffer: font=%s#%d text=%s item=%s %s (resolved dir=%d script=%s)\n  fresh: %s\n  %s",
			c.Font, c.Index, U(c.Text), U(c.Item()), c.Settings(), v.RS.Dir, scriptString(v.RS.Script), Fmt(v.Go), d)
		return v
	}
	var ok bool
	v.C, ok = p.ShapeC(c, v.RS)
	v.NonTrivial = !p.Trivial(c, v.RS, v.Go) || !p.Trivial(c, v.RS, v.C)
	v.Differ = !Equal(v.Go, v.C)
	if cls == "" {
		n := len(c.Item())
		big := func(k int) bool { return k >= 2048 && k >= 16*n }
		if hit || big(len(v.Go)) || big(len(v.C)) {
			cls = ClsGrowth
		}
	}
	if cls == "" && p.Info.PairPos2Shadow != nil && pairPos2Shadowed(p, v.Go) {
		cls = ClsPairPos2
	}
	if cls == "" && pairPos2OverIgnorable(p, c, v.Go) {
		cls = ClsPairPos2
	}
	if cls == "" && markAfterMultiple(p, c, v.RS.Dir, v.Go) {
		cls = ClsMarkAfterMultiple
	}
	if cls == "" && !ok {
		cls = ClsCFail
	}
	switch {
	case cls != "":
		v.Kind, v.Class = "inconclusive", cls
	case !v.Differ:
		v.Kind = "equal"
	case p.Info.Variable && len(c.Vars) > 0 && within1(v.Go, v.C):
		v.Kind, v.Class = "inconclusive", ClsVarRounding
	default:
		v.Kind = "violated"
		kind := DiffKind(v.Go, v.C)
		v.Key = defectKey(p, c, &v)
		if v.Key == "" {
			v.Key = fmt.Sprintf("C05/%s#%d/%s/%s differs", c.Font, c.Index, v.Cat, kind)
		}
		v.Msg = fmt.Sprintf("%s differs from HarfBuzz %s: font=%s#%d text=%s item=%s %s (resolved dir=%d script=%s)\n  go: %s\n  C : %s",
			kind, hbref.Version(), c.Font, c.Index, U(c.Text), U(c.Item()), c.Settings(), v.RS.Dir, scriptString(v.RS.Script), Fmt(v.Go), Fmt(v.C))
	}
	return v
}
