// Package c05 monitors "Shaper output equals the reference HarfBuzz
// implementation".
//
// Events: for one (font bytes, face index, text, item range, direction, script,
// language, features, variations, cluster level, flags, scale = upem) the
// sequence (gid, cluster, x/y advance, x/y offset)* returned by
// harfbuzz.Buffer.Shape and by hb_shape_full(…, {"ot"}) of the installed C
// HarfBuzz 6.0.0 on the same unmodified bytes; for variable fonts also
// GlyphHAdvance / GlyphExtents against hb_font_get_glyph_h_advance/_extents
// under hb_font_set_variations.
//
// Oracle: sequence equality, three-valued. The C library is one release older
// than the upstream commit the port tracks, so inputs that fall into a skew
// class (judge.go) are `inconclusive` — counted per class, never a violation;
// only "outside every skew class and different" is a violation.
//
// The package also exports the case model, both engines, the generators and
// the skew classes for C18.
package c05

import (
	"encoding/json"
	"fmt"
	"os"
	"path/filepath"
	"sort"
	"strings"
	"time"

	ot "github.com/go-text/typesetting/font/opentype"

	"verifharness/internal/corpus"
	"verifharness/internal/gen"
	"verifharness/internal/hbref"
	"verifharness/internal/vrun"
)

// Plan is what the parent hands to the worker processes.
type Plan struct {
	Faces   []string `json:"faces"` // "file-id#index" of every face both sides accept
	Batches int      `json:"batches"`
	PerTask int      `json:"per_task"`
	Skew    *Skew    `json:"skew"`
	// systematic streams, appended after the len(Faces)*Batches random tasks:
	// one decomposition-sweep task per face, then one pair-sweep task per
	// (alphabet, mark) item
	DecompCap  int        `json:"decomp_cap"`
	LookupCap  int        `json:"lookup_cap"`
	PairItems  int        `json:"pair_items"`
	SweepFaces [][]string `json:"sweep_faces"`
}

// EligibleFaces lists the faces both the Go loader and the C library accept.
func EligibleFaces() (refs []string, rejected int) {
	for _, fr := range corpus.Faces() {
		bl := blobFor(fr.File)
		if fr.Index >= bl.FaceCount() {
			rejected++
			continue
		}
		fc := bl.NewFace(fr.Index)
		n := fc.GlyphCount()
		fc.Destroy()
		if n == 0 {
			rejected++
			continue
		}
		refs = append(refs, fr.String())
	}
	return
}

func SavePlan(path string, pl *Plan) error {
	b, err := json.Marshal(pl)
	if err != nil {
		return err
	}
	return os.WriteFile(path, b, 0o644)
}

func LoadPlan(path string) (*Plan, error) {
	b, err := os.ReadFile(path)
	if err != nil {
		return nil, err
	}
	pl := &Plan{}
	if err := json.Unmarshal(b, pl); err != nil {
		return nil, err
	}
	pl.Skew.index()
	return pl, nil
}

// SplitRef parses "id#index".
func SplitRef(ref string) (string, int) {
	k := strings.LastIndex(ref, "#")
	idx := 0
	fmt.Sscanf(ref[k+1:], "%d", &idx)
	return ref[:k], idx
}

var dirName = map[int]string{4: "LTR", 5: "RTL", 6: "TTB", 7: "BTT"}

// PairSet collects (face, category) pairs reached by a worker; written to a
// side file and merged by the parent ("fonts × shaper categories reached").
type PairSet map[string]bool

func (ps PairSet) Save(path string) {
	var ks []string
	for k := range ps {
		ks = append(ks, k)
	}
	sort.Strings(ks)
	os.WriteFile(path, []byte(strings.Join(ks, "\n")), 0o644)
}

// MergePairSets reads the side files of all workers.
func MergePairSets(dir string) (fonts, pairs int, perCat map[string]int) {
	files, _ := filepath.Glob(filepath.Join(dir, "pairs-*.txt"))
	all := map[string]bool{}
	for _, f := range files {
		b, err := os.ReadFile(f)
		if err != nil {
			continue
		}
		for _, l := range strings.Split(string(b), "\n") {
			if l != "" {
				all[l] = true
			}
		}
		os.Remove(f)
	}
	fs := map[string]bool{}
	perCat = map[string]int{}
	for k := range all {
		i := strings.LastIndex(k, "|")
		fs[k[:i]] = true
		perCat[k[i+1:]]++
	}
	return len(fs), len(all), perCat
}

type sample struct {
	Font     string `json:"font"`
	Text     string `json:"text"`
	Settings string `json:"settings"`
	Src      string `json:"source"`
	Category string `json:"shaper_category"`
	Output   string `json:"output_both_sides"`
}

var shrunkKeys = map[string]bool{}

func record(run *vrun.Run, p *Pair, c *Case, v *Verdict, pairs PairSet, sk *Skew) {
	run.Eval(1)
	run.Cover("verdict=" + v.Kind)
	run.Cover("cat=" + v.Cat)
	run.Cover("dir=" + dirName[v.RS.Dir])
	run.Cover("script=" + scriptString(v.RS.Script))
	run.Cover("src=" + strings.SplitN(c.Src, ":", 3)[0] + ":" + strings.SplitN(c.Src+"::", ":", 3)[1])
	run.Cover("fontkind=" + p.Info.Kinds() + "|" + v.Cat)
	run.Cover(fmt.Sprintf("cluster_level=%d", c.CL))
	if len(c.Feats) > 0 {
		ranged := false
		for _, f := range c.Feats {
			if f.Start != 0 || f.End >= 0 {
				ranged = true
			}
		}
		if ranged {
			run.Cover("features=ranged")
		} else {
			run.Cover("features=global")
		}
	}
	if len(c.Vars) > 0 {
		run.Cover("variations=set")
	}
	if pairs != nil {
		pairs[p.Ref()+"|"+v.Cat] = true
	}
	switch v.Kind {
	case "equal":
		if v.NonTrivial {
			run.Nontrivial(c.Hash())
			run.Cover("equal-nontrivial")
			if run.WantSample() && len(v.Go) > 1 && len(v.Go) < 12 {
				run.Sample(sample{Font: p.Ref(), Text: U(c.Item()), Settings: c.Settings(), Src: c.Src, Category: v.Cat, Output: Fmt(v.Go)})
			}
		}
	case "inconclusive":
		run.Inconclusive(v.Class)
		if v.Class != ClsGoPanic {
			if v.Differ {
				run.Cover("in-skew-class:outputs-differ")
			} else {
				run.Cover("in-skew-class:outputs-equal")
			}
		}
	case "violated":
		if v.NonTrivial {
			run.Nontrivial(c.Hash())
		}
		run.Cover("violated-cases")
		if !shrunkKeys[v.Key] {
			// first case of this key in this process: report a minimal witness
			shrunkKeys[v.Key] = true
			key := v.Key
			m := Shrink(*c, 120, func(d *Case) bool {
				w := Judge(p, d, sk)
				return w.Kind == "violated" && w.Key == key
			})
			mv := Judge(p, &m, sk)
			if mv.Kind == "violated" && mv.Key == key {
				run.Violation(key, mv.Msg, &m)
				return
			}
		}
		run.Violation(v.Key, v.Msg, c)
	}
}

// fontFuncs compares GlyphHAdvance / GlyphExtents with the C font funcs for a
// sample of glyphs under the variations of the case (second sentence of the
// statement). Empty glyphs (no outline on either side) are a measured skew of
// the extents only.
func fontFuncs(run *vrun.Run, p *Pair, c *Case, gids []uint32) {
	if len(c.Vars) == 0 || len(gids) == 0 {
		return
	}
	p.prepareC(c)
	var bad string
	pv, where := vrun.Catch(func() {
		hf := p.goFont(c)
		for _, g := range gids {
			if int(g) >= p.Info.NGlyphs {
				continue
			}
			run.Cover("fontfuncs:glyphs-compared")
			ga := hf.GlyphHAdvance(ot.GID(g))
			ca := p.CFont.HAdvance(g)
			if ga != ca {
				bad = fmt.Sprintf("GlyphHAdvance(%d)=%d, hb_font_get_glyph_h_advance=%d", g, ga, ca)
				return
			}
			ge, gok := hf.GlyphExtents(ot.GID(g))
			ce, cok := p.CFont.GlyphExtents(g)
			if !gok && !cok {
				continue
			}
			if ce.Width == 0 && ce.Height == 0 || ge.Width == 0 && ge.Height == 0 {
				// empty glyph: 6.0.0 reports the phantom-point origin, later
				// versions zero extents (measured skew, see DESIGN C10)
				run.Cover("fontfuncs:empty-glyph-extents-skipped")
				continue
			}
			d1 := func(a, b int32) bool { return a-b >= -1 && a-b <= 1 }
			if gok == cok && (ge.XBearing != ce.XBearing || ge.YBearing != ce.YBearing || ge.Width != ce.Width || ge.Height != ce.Height) &&
				d1(ge.XBearing, ce.XBearing) && d1(ge.YBearing, ce.YBearing) && d1(ge.Width, ce.Width) && d1(ge.Height, ce.Height) {
				run.Cover("fontfuncs:extents-within-1-unit")
				continue
			}
			if gok != cok || ge.XBearing != ce.XBearing || ge.YBearing != ce.YBearing || ge.Width != ce.Width || ge.Height != ce.Height {
				bad = fmt.Sprintf("GlyphExtents(%d)=%v,%v hb_font_get_glyph_extents=%v,%v", g, ge, gok, ce, cok)
				return
			}
		}
	})
	if pv != nil {
		run.Inconclusive(ClsGoPanic)
		_ = where
		return
	}
	if bad != "" {
		run.Violation(fmt.Sprintf("C05/%s#%d/font funcs under variations", c.Font, c.Index),
			fmt.Sprintf("font funcs differ under variations %v: %s", c.Vars, bad), c)
	}
}

func level() vrun.Level {
	return vrun.Level{
		Level: "exploration",
		Rule: "cases: every face both sides accept x fixed number of generated texts (cmap-local, per-script alphabets, misc class tuples, real text, mutations of upstream trigger strings) x directions x script/language tags x features (global and ranged) x variations x cluster levels x flags, scale=upem. " +
			"verdict per case: inconclusive if the INPUT is in a skew class (listed in `inconclusive`), else equal/violated by sequence equality of (gid, cluster, advances, offsets) with libharfbuzz. " +
			"non-trivial = outside the skew classes and the output is not the identity cmap mapping with default advances on either side; distinct by hash of (font, text, item, settings)",
		Assumptions: []string{
			"reference: libharfbuzz.so.0 " + hbref.Version() + " with shaper list {ot}, default (ot) font funcs, on unmodified corpus bytes",
			"the reference is one release older than the upstream commit the port tracks: skew classes (a) measured drift on the upstream .tests corpus, (b) Unicode data differences measured through hb_unicode_*, (c) fixed capability list, all defined on the input",
			"segment properties are passed explicitly to both sides (unset script/direction resolved by the port's GuessSegmentProperties); language unset on both sides when empty",
		},
		Floor: 5000,
	}
}

// Main is the entry point of cmd/c05.
func Main() {
	run := vrun.Start("C05")
	wd := run.WorkDir()
	planPath := filepath.Join(wd, "plan.json")

	if run.Replay != "" {
		var c Case
		if _, err := vrun.ReadReplay(run.Replay, &c); err != nil {
			fmt.Println("replay:", err)
			os.Exit(2)
		}
		sk := ComputeSkew()
		p, ok := Open(c.Font, c.Index)
		if !ok {
			fmt.Println("replay: font not available:", c.Font)
			os.Exit(2)
		}
		v := Judge(p, &c, sk)
		fmt.Printf("replay verdict: %s %s\n  go: %s\n  C : %s\n", v.Kind, v.Class, Fmt(v.Go), Fmt(v.C))
		record(run, p, &c, &v, nil, sk)
		run.Finish(vrun.Level{Level: "exploration", Rule: "replay"})
	}

	if run.Worker {
		pl, err := LoadPlan(planPath)
		if err != nil {
			fmt.Fprintln(os.Stderr, "plan:", err)
			os.Exit(3)
		}
		pairs := PairSet{}
		var cur *Pair
		curRef := ""
		nRandom := len(pl.Faces) * pl.Batches
		sweepPairs := map[string]*Pair{}
		run.WorkerLoop(120, func(i int) {
			if i >= nRandom+len(pl.Faces) {
				// (2) letter-mark pair sweep: one (alphabet, mark) item
				k := i - nRandom - len(pl.Faces)
				for v := 0; v < pairVariants; v++ {
					c, ref := PairSweepCase(k, v, pl.SweepFaces)
					p, ok := sweepPairs[ref]
					if !ok {
						if len(sweepPairs) > 12 {
							for r, q := range sweepPairs {
								if q != nil {
									q.Close()
								}
								delete(sweepPairs, r)
							}
						}
						p, _ = Open(c.Font, c.Index)
						sweepPairs[ref] = p
					}
					if p == nil {
						continue
					}
					w := Judge(p, &c, pl.Skew)
					record(run, p, &c, &w, pairs, pl.Skew)
				}
				return
			}
			decomp := i >= nRandom
			ref := ""
			if decomp {
				ref = pl.Faces[i-nRandom]
			} else {
				ref = pl.Faces[i/pl.Batches]
			}
			if ref != curRef {
				if cur != nil {
					cur.Close()
					cur = nil
				}
				id, idx := SplitRef(ref)
				p, ok := Open(id, idx)
				curRef = ref
				if !ok {
					run.Inconclusive("face could not be opened in the worker")
					return
				}
				cur = p
			}
			if cur == nil {
				return
			}
			if decomp {
				// (1) decomposition sweep of this face
				for _, c := range DecompSweep(cur, i-nRandom, pl.DecompCap) {
					c := c
					w := Judge(cur, &c, pl.Skew)
					record(run, cur, &c, &w, pairs, pl.Skew)
				}
				// (4) lookup sweep of this face
				for _, c := range LookupSweep(cur, i-nRandom, pl.LookupCap) {
					c := c
					w := Judge(cur, &c, pl.Skew)
					record(run, cur, &c, &w, pairs, pl.Skew)
				}
				return
			}
			seen := map[uint32]bool{}
			var gids []uint32
			var lastVar *Case
			for k := 0; k < pl.PerTask; k++ {
				r := gen.New(run.Seed, "C05/case/"+ref, (i%pl.Batches)*pl.PerTask+k)
				c := GenCase(r, cur, GenOpts{})
				v := Judge(cur, &c, pl.Skew)
				record(run, cur, &c, &v, pairs, pl.Skew)
				if len(c.Vars) > 0 && v.Kind == "equal" {
					if lastVar == nil || varsKey(lastVar) != varsKey(&c) {
						if lastVar != nil {
							fontFuncs(run, cur, lastVar, gids)
						}
						cc := c
						lastVar, gids, seen = &cc, nil, map[uint32]bool{}
					}
					for _, g := range v.Go {
						if !seen[g.GID] && len(gids) < 24 {
							seen[g.GID] = true
							gids = append(gids, g.GID)
						}
					}
				}
			}
			if lastVar != nil {
				fontFuncs(run, cur, lastVar, gids)
			}
		})
		pairs.Save(filepath.Join(wd, fmt.Sprintf("pairs-%d-%d.txt", run.WorkerLo, run.WorkerHi)))
		run.Finish(level())
	}

	// parent
	old, _ := filepath.Glob(filepath.Join(wd, "pairs-*.txt"))
	for _, f := range old {
		os.Remove(f)
	}
	t0 := time.Now()
	sk := ComputeSkew()
	faces, rejected := EligibleFaces()
	pl := &Plan{Faces: faces, Skew: sk, Batches: run.Pick(8, 80), PerTask: run.Pick(50, 100),
		DecompCap: run.Pick(120, 0), LookupCap: run.Pick(150, 1500), PairItems: PairSweepItems(), SweepFaces: PairSweepFaces(faces)}
	if err := SavePlan(planPath, pl); err != nil {
		fmt.Fprintln(os.Stderr, "plan:", err)
		os.Exit(3)
	}
	run.Extra("setup_s", time.Since(t0).Seconds())
	run.Extra("faces_both_sides_accept", len(faces))
	run.Extra("faces_rejected_by_reference", rejected)
	run.Extra("reference_version", sk.HBVersion)
	run.Extra("skew_a_upstream_tests_replayed", sk.TestsReplayed)
	run.Extra("skew_a_upstream_tests_reproduced_by_reference", sk.TestsEqual)
	run.Extra("skew_a_drift_font_category_pairs", len(sk.Drift))
	run.Extra("skew_b_unicode_codepoints", len(sk.UniRunes))
	run.Extra("skew_b_by_property_gc_ccc_script_mirroring_decomposition", sk.UniCount)
	run.Extra("port_gc_table_defect_codepoints", sk.PortGCDefect)
	if len(sk.DriftExamples) > 0 {
		n := len(sk.DriftExamples)
		if n > 5 {
			n = 5
		}
		run.Extra("skew_a_examples", sk.DriftExamples[:n])
	}
	if sk.HBVersion != "6.0.0" {
		run.Note("reference version is %s, the skew list was written for 6.0.0", sk.HBVersion)
	}
	n := len(faces) * pl.Batches
	run.Extra("random_cases_planned", n*pl.PerTask)
	run.Extra("decomposition_sweep_tasks_one_per_face", len(faces))
	run.Extra("pair_sweep_cases_planned", pl.PairItems*pairVariants)
	run.Extra("pair_sweep_faces_per_alphabet", pl.SweepFaces)
	nRandom := n
	n += len(faces) + pl.PairItems
	run.RunChildren(vrun.ChildCfg{N: n, Chunk: run.Pick(96, 400), StallWall: 600 * time.Second}, func(d vrun.Death) {
		run.Inconclusive("go side died in a worker (C01): " + d.Kind)
		what := "pair sweep"
		if d.Case < nRandom {
			what = "face " + faces[d.Case/pl.Batches]
		} else if d.Case < nRandom+len(faces) {
			what = "decomposition sweep of face " + faces[d.Case-nRandom]
		}
		run.Note("task %d (%s): %s", d.Case, what, vrun.FatalHead(d.Detail))
	})
	nf, np, perCat := MergePairSets(wd)
	run.Extra("fonts_reached", nf)
	run.Extra("font_x_shaper_category_pairs_reached", np)
	run.Extra("fonts_per_shaper_category", perCat)
	run.Finish(level())
}
