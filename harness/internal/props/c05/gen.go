package c05

import (
	"sort"
	"unicode"

	"verifharness/internal/gen"
	"verifharness/internal/hbref"
)

var someScripts = []string{"Latn", "Arab", "Deva", "Hebr", "Thai", "Hang", "Mymr", "Khmr", "Tibt", "Zyyy", "Zzzz", "Mong", "Syrc", "Beng", "Taml", "Knda", "Hani", "Kana", "Grek", "Cyrl", "Nkoo", "Java", "Sinh", "Mlym", "Laoo", "Adlm", "Cham", "Lana", "Newa"}

var someLangs = []string{"en", "ar", "tr", "zh-hans", "sr", "ro", "nl", "ur", "sd", "mr", "ne", "fa", "de", "ja", "ko", "az", "crh", "mo", "vi", "pl", "ca", "x-hbot-41424320", "und", "zz-zz"}

var commonFeats = []string{"liga", "kern", "frac", "smcp", "ss01", "vert", "calt", "dlig", "onum", "tnum", "c2sc", "salt", "aalt", "mark", "mkmk", "ccmp", "locl", "rlig", "numr", "dnom", "init", "medi", "fina", "isol", "curs", "cswh", "swsh", "hist", "zero", "case", "ordn", "sups", "subs", "vrt2", "vkrn", "palt", "vpal", "dist", "abvm", "blwm", "rclt"}

// GenOpts tunes the generator for the property using it.
type GenOpts struct {
	NoCmapLocal bool // C18: texts (ii),(iv),(v) only
	OnlyLTRRTL  bool // C18
	Monotone    bool // C18: cluster levels 0/1 only
	NoSubRun    bool
}

// genState caches per-face material.
type genState struct {
	alph []*Alphabet
	trig []int
}

func (p *Pair) gs() *genState {
	if p.gen == nil {
		p.gen = &genState{alph: CoveredAlphabets(p.Info), trig: Triggers(p.Ref())}
	}
	return p.gen
}

func hasRune(fi *FontInfo, r rune) bool {
	i := sort.Search(len(fi.Runes), func(i int) bool { return fi.Runes[i] >= r })
	return i < len(fi.Runes) && fi.Runes[i] == r
}

// GenCase draws one case for the face: a pure function of the RNG state.
func GenCase(r *gen.RNG, p *Pair, o GenOpts) Case {
	fi := p.Info
	st := p.gs()
	c := Case{Font: p.File.ID, Index: p.Index, Len: -1}
	var a *Alphabet
	if len(st.alph) > 0 {
		a = gen.Pick(r, st.alph)
	}
	k := r.Intn(100)
	switch {
	case k < 28 && len(st.trig) > 0:
		c.Text = MutateTrigger(r, fi, st.trig)
		c.Src = "v:upstream-trigger-mutation"
	case k < 50 && !o.NoCmapLocal:
		c.Text = CmapLocalText(r, fi)
		c.Src = "i:cmap-local"
	case k < 80:
		if a == nil || r.Chance(1, 8) {
			a = gen.Pick(r, Alphabets)
		}
		c.Text = AlphabetText(r, a)
		c.Src = "ii:alphabet:" + a.Name
	case k < 90:
		var letters []rune
		if a != nil {
			letters = a.Base
		}
		c.Text = MiscText(r, letters)
		c.Src = "ii:misc"
	default:
		ar := hasRune(fi, 0x628)
		la := hasRune(fi, 'e')
		if ar && (!la || r.Bool()) {
			c.Text = PerfText(r, true)
			c.Src = "iv:real-text-fa"
		} else if la {
			c.Text = PerfText(r, false)
			c.Src = "iv:real-text-en"
		}
		if len(c.Text) == 0 {
			if a != nil {
				c.Text = AlphabetText(r, a)
				c.Src = "ii:alphabet:" + a.Name
			} else if !o.NoCmapLocal {
				c.Text = CmapLocalText(r, fi)
				c.Src = "i:cmap-local"
			} else {
				c.Text = AlphabetText(r, Alphabets[0])
				c.Src = "ii:alphabet:latin"
			}
		}
	}
	if len(c.Text) == 0 {
		c.Text = []rune{'a'}
	}
	if r.Chance(1, 12) {
		// a run of 13..18 one-letter syllables before the text: the syllable serial of the
		// syllabic shapers is a 4-bit counter that skips 0 when it wraps
		var letter rune
		for _, x := range c.Text {
			if unicode.IsLetter(x) && !unicode.IsMark(x) {
				letter = x
				break
			}
		}
		if letter == 0 && a != nil && len(a.Base) > 0 {
			letter = gen.Pick(r, a.Base)
		}
		if letter != 0 {
			n := 13 + r.Intn(6)
			pre := make([]rune, n, n+len(c.Text))
			for i := range pre {
				pre[i] = letter
			}
			c.Text = append(pre, c.Text...)
			c.Src += "+syllable-train"
		}
	}

	// direction
	switch d := r.Intn(100); {
	case d < 55:
		c.Dir = 0
	case d < 67:
		c.Dir = hbref.DirLTR
	case d < 79:
		c.Dir = hbref.DirRTL
	case d < 94:
		c.Dir = hbref.DirTTB
	default:
		c.Dir = hbref.DirBTT
	}
	if o.OnlyLTRRTL && c.Dir > hbref.DirRTL {
		c.Dir = 0
	}
	// script
	switch s := r.Intn(100); {
	case s < 75:
	case s < 85:
		if a != nil {
			c.Script = a.Script
		}
	default:
		c.Script = gen.Pick(r, someScripts)
	}
	// language
	if r.Chance(2, 5) {
		c.Lang = gen.Pick(r, someLangs)
	}
	// sub-run
	if !o.NoSubRun && r.Chance(1, 5) && len(c.Text) > 1 {
		c.Off = r.Intn(len(c.Text))
		c.Len = r.Intn(len(c.Text) - c.Off + 1)
		if r.Chance(1, 6) {
			c.Len = -1
		}
	}
	// flags
	if r.Chance(3, 5) {
		c.Flags = FBot | FEot
	} else {
		c.Flags = r.Intn(128)
		if c.Flags&FPreserveDI != 0 && r.Bool() {
			c.Flags &^= FPreserveDI
		}
	}
	// cluster level
	switch l := r.Intn(100); {
	case l < 70:
		c.CL = 0
	case l < 85:
		c.CL = 1
	default:
		c.CL = 2
	}
	if o.Monotone && c.CL == 2 {
		c.CL = r.Intn(2)
	}
	// features
	if r.Chance(9, 20) {
		n := r.Range(1, 3)
		ilen := len(c.Item())
		for i := 0; i < n; i++ {
			var tag string
			if len(fi.FeatTags) > 0 && r.Chance(2, 3) {
				tag = gen.Pick(r, fi.FeatTags)
			} else {
				tag = gen.Pick(r, commonFeats)
			}
			f := Feat{Tag: tag, Value: uint32(gen.Pick(r, []int{0, 1, 1, 1, 3, 2})), Start: 0, End: -1}
			if r.Chance(2, 5) && ilen > 0 {
				// ranged (cluster values are indices into Text)
				lo, _ := c.itemRange()
				f.Start = lo + r.Intn(ilen)
				f.End = f.Start + 1 + r.Intn(ilen)
				if r.Chance(1, 8) {
					f.End = -1
				}
			}
			c.Feats = append(c.Feats, f)
		}
	}
	// variations
	if fi.Variable && len(fi.Axes) > 0 && r.Chance(7, 10) {
		for i, ax := range fi.Axes {
			if i >= 4 || r.Chance(1, 4) {
				continue
			}
			var v float32
			switch r.Intn(6) {
			case 0:
				v = ax.Min
			case 1:
				v = ax.Max
			case 2:
				v = ax.Def
			case 3:
				v = ax.Max + 100 // clamped by both sides
			default:
				steps := int((ax.Max - ax.Min) * 4)
				if steps < 1 {
					steps = 1
				}
				v = ax.Min + float32(r.Intn(steps+1))/4
			}
			c.Vars = append(c.Vars, Var{Tag: tagString(ax.Tag), Value: v})
		}
	}
	return c
}

func tagString(t uint32) string {
	return string([]byte{byte(t >> 24), byte(t >> 16), byte(t >> 8), byte(t)})
}
