package c05

import (
	"bytes"
	"encoding/binary"
	"sort"
	"strings"
	"sync"

	ot "github.com/go-text/typesetting/font/opentype"
	"github.com/go-text/typesetting/font/opentype/tables"

	"verifharness/internal/hbref"
)

// FontInfo are the capability bits of one face (read once per process).
type FontInfo struct {
	GSUB, GPOS, Morx, Kerx, Kern, Trak bool
	Variable                           bool
	Axes                               []hbref.AxisInfo
	Upem, NGlyphs                      int
	Runes                              []rune   // code points the Go cmap maps, ascending (capped)
	MacOnly                            bool     // cmap has no Unicode / Microsoft subtable (only Macintosh-platform ones)
	CmapIDs                            []string // "platform/encoding" of each cmap record
	FeatTags                           []string // GSUB ∪ GPOS feature tags
	GoMorx                             bool
	Zero                               map[rune]bool      // code points the Go cmap maps to glyph 0
	ZeroCommon                         bool               // ... including U+0020, U+25CC, U+2010 or U+2011 (consulted for almost any text)
	ZeroForms                          bool               // ... including Arabic / Hebrew presentation forms or the Thai PUA (fallback shaping)
	GoGPOSDropped, GoGSUBDropped       bool               // the reference sees the table, the Go loader produced no lookups
	ArabicGSUB                         bool               // GSUB has one of isol/fina/medi/init (otherwise Arabic fallback shaping is used)
	ArabicFallbackLig                  bool               // cmap maps a first component of the synthesised fallback ligature lookups
	NoOutlines                         bool               // no glyf / CFF / CFF2 table
	COLR                               bool               // has a COLR table (HarfBuzz takes glyph extents from COLRv1 clip boxes)
	AttachTags                         map[string]bool    // GPOS feature tags whose lookups contain cursive / mark attachment subtables
	PairPos2Shadow                     [][]tables.PairPos // lookups where a PairPosFormat2 subtable is followed by another pair subtable
	PairPos2Class0                     bool               // GPOS has a PairPosFormat2 subtable with ValueFormat2 != 0 or non-zero values in the class2 = 0 column
}

// Kinds lists the shaping-relevant table kinds for coverage classes.
func (fi *FontInfo) Kinds() string {
	var k []string
	add := func(b bool, s string) {
		if b {
			k = append(k, s)
		}
	}
	add(fi.GSUB, "GSUB")
	add(fi.GPOS, "GPOS")
	add(fi.Morx, "morx")
	add(fi.Kerx, "kerx")
	add(fi.Kern, "kern")
	add(fi.Variable, "var")
	if len(k) == 0 {
		return "plain"
	}
	return strings.Join(k, "+")
}

// first components of the ligature lookups that Arabic fallback shaping
// synthesises from the cmap (2-component, 3-component and mark ligature tables
// of hb-ot-shaper-arabic-table.hh)
var arabicFallbackLigFirsts = []rune{0x0651, 0xfe91, 0xfe92, 0xfe97, 0xfe98, 0xfe9b, 0xfe9f, 0xfea3, 0xfea7, 0xfeb3, 0xfeb7,
	0xfed3, 0xfedf, 0xfee0, 0xfee3, 0xfee7, 0xfee8, 0xfef3, 0xfef4}

var (
	infoMu    sync.Mutex
	infoCache = map[string]*FontInfo{}
)

const maxRunes = 1 << 17

func infoFor(p *Pair) *FontInfo {
	key := p.Ref()
	infoMu.Lock()
	fi, ok := infoCache[key]
	infoMu.Unlock()
	if ok {
		return fi
	}
	fi = &FontInfo{}
	cf := p.CFace
	fi.GSUB, fi.GPOS = cf.HasGSUB(), cf.HasGPOS()
	fi.Morx, fi.Kerx, fi.Trak = cf.HasMorx(), cf.HasKerx(), cf.HasTrak()
	fi.Kern = cf.HasTable(hbref.Tag("kern"))
	fi.Variable = cf.HasVarData()
	fi.COLR = cf.HasTable(hbref.Tag("COLR"))
	fi.NoOutlines = !cf.HasTable(hbref.Tag("glyf")) && !cf.HasTable(hbref.Tag("CFF ")) && !cf.HasTable(hbref.Tag("CFF2"))
	if fi.Variable {
		for _, ax := range cf.VarAxes() {
			if asciiTag(tagString(ax.Tag)) {
				fi.Axes = append(fi.Axes, ax)
			}
		}
	}
	fi.Upem, fi.NGlyphs = cf.Upem(), cf.GlyphCount()
	fi.GoMorx = len(p.Go.Morx) > 0
	if p.Go.Cmap != nil {
		it := p.Go.Cmap.Iter()
		fi.Zero = map[rune]bool{}
		for it.Next() && len(fi.Runes) < maxRunes {
			r, g := it.Char()
			fi.Runes = append(fi.Runes, r)
			if g == 0 {
				fi.Zero[r] = true
				switch {
				case r == 0x20 || r == 0x25CC || r == 0x2010 || r == 0x2011:
					fi.ZeroCommon = true
				case r >= 0xFB1D && r <= 0xFDFF, r >= 0xFE70 && r <= 0xFEFF, r >= 0xF700 && r <= 0xF7FF:
					fi.ZeroForms = true
				}
			}
		}
		sort.Slice(fi.Runes, func(i, j int) bool { return fi.Runes[i] < fi.Runes[j] })
	}
	seen := map[string]bool{}
	for _, f := range p.Go.GSUB.Features {
		seen[f.Tag.String()] = true
	}
	for _, f := range p.Go.GPOS.Features {
		seen[f.Tag.String()] = true
	}
	for t := range seen {
		if asciiTag(t) {
			fi.FeatTags = append(fi.FeatTags, t)
		}
	}
	sort.Strings(fi.FeatTags)
	for _, f := range p.Go.GSUB.Features {
		switch f.Tag.String() {
		case "isol", "fina", "medi", "init":
			fi.ArabicGSUB = true
		}
	}
	for _, r := range arabicFallbackLigFirsts {
		if _, ok := p.Go.NominalGlyph(r); ok {
			fi.ArabicFallbackLig = true
		}
	}
	fi.PairPos2Class0 = pairPos2Class0(p)
	fi.AttachTags = map[string]bool{}
	for _, f := range p.Go.GPOS.Features {
		for _, li := range f.LookupListIndices {
			if int(li) >= len(p.Go.GPOS.Lookups) {
				continue
			}
			for _, st := range p.Go.GPOS.Lookups[li].Subtables {
				switch st.(type) {
				case tables.CursivePos, tables.MarkBasePos, tables.MarkLigPos, tables.MarkMarkPos,
					tables.ContextualPos, tables.ChainedContextualPos:
					fi.AttachTags[f.Tag.String()] = true
				}
			}
		}
	}
	func() {
		defer func() { recover() }()
		for _, lk := range p.Go.GPOS.Lookups {
			var pps []tables.PairPos
			has2 := false
			for _, st := range lk.Subtables {
				if pp, ok := st.(tables.PairPos); ok {
					if _, is2 := pp.Data.(tables.PairPosData2); is2 && len(pps) >= 0 {
						has2 = true
					}
					pps = append(pps, pp)
				}
			}
			if has2 && len(pps) >= 2 {
				fi.PairPos2Shadow = append(fi.PairPos2Shadow, pps)
			}
		}
	}()
	fi.GoGPOSDropped = fi.GPOS && len(p.Go.GPOS.Lookups) == 0 && rawLookupCount(p, "GPOS") > 0
	fi.GoGSUBDropped = fi.GSUB && len(p.Go.GSUB.Lookups) == 0 && rawLookupCount(p, "GSUB") > 0
	fi.MacOnly, fi.CmapIDs = cmapRecords(p)
	infoMu.Lock()
	infoCache[key] = fi
	infoMu.Unlock()
	return fi
}

// cmapRecords reads the encoding records of the face's cmap table directly
// from the font bytes (independent of both shapers). macOnly is true when
// there is at least one record and every record is on platform 1 (Macintosh).
func cmapRecords(p *Pair) (macOnly bool, ids []string) {
	lds, err := ot.NewLoaders(bytes.NewReader(p.File.Bytes()))
	if err != nil || p.Index >= len(lds) {
		return false, nil
	}
	raw, err := lds[p.Index].RawTable(ot.MustNewTag("cmap"))
	if err != nil || len(raw) < 4 {
		return false, nil
	}
	n := int(binary.BigEndian.Uint16(raw[2:]))
	mac, other := 0, 0
	for i := 0; i < n && 4+8*i+8 <= len(raw); i++ {
		pl := binary.BigEndian.Uint16(raw[4+8*i:])
		en := binary.BigEndian.Uint16(raw[4+8*i+2:])
		ids = append(ids, itoa(int(pl))+"/"+itoa(int(en)))
		if pl == 1 {
			mac++
		} else {
			other++
		}
	}
	return mac > 0 && other == 0, ids
}

// pairPos2Class0 looks for class-based pair positioning subtables where a
// second glyph of class 0 matters: ValueFormat2 != 0 (the pair is consumed) or
// a non-zero record in the class2 = 0 column.
func pairPos2Class0(p *Pair) bool {
	found := false
	vzero := func(v tables.ValueRecord) bool {
		return v.XPlacement == 0 && v.YPlacement == 0 && v.XAdvance == 0 && v.YAdvance == 0 &&
			v.XPlaDevice == nil && v.YPlaDevice == nil && v.XAdvDevice == nil && v.YAdvDevice == nil
	}
	func() {
		defer func() { recover() }()
		for _, lk := range p.Go.GPOS.Lookups {
			for _, st := range lk.Subtables {
				pp, ok := st.(tables.PairPos)
				if !ok {
					continue
				}
				d, ok := pp.Data.(tables.PairPosData2)
				if !ok {
					continue
				}
				if d.ValueFormat2 != 0 {
					found = true
					return
				}
				n1 := d.ClassDef1.Extent()
				for c1 := 0; c1 < n1; c1++ {
					r := d.Record(uint16(c1), 0)
					if !vzero(r.ValueRecord1) {
						found = true
						return
					}
				}
			}
		}
	}()
	return found
}

// rawLookupCount reads the number of lookups of a layout table straight from
// the bytes (-1 when the header cannot be read).
func rawLookupCount(p *Pair, tag string) int {
	lds, err := ot.NewLoaders(bytes.NewReader(p.File.Bytes()))
	if err != nil || p.Index >= len(lds) {
		return -1
	}
	raw, err := lds[p.Index].RawTable(ot.MustNewTag(tag))
	if err != nil || len(raw) < 10 {
		return -1
	}
	off := int(binary.BigEndian.Uint16(raw[8:]))
	if off == 0 || off+2 > len(raw) {
		return -1
	}
	return int(binary.BigEndian.Uint16(raw[off:]))
}

func asciiTag(t string) bool {
	if len(t) != 4 {
		return false
	}
	for i := 0; i < 4; i++ {
		if t[i] < 0x20 || t[i] > 0x7e || t[i] == '"' || t[i] == '\\' {
			return false
		}
	}
	return true
}

func itoa(v int) string {
	if v == 0 {
		return "0"
	}
	var b []byte
	for v > 0 {
		b = append([]byte{byte('0' + v%10)}, b...)
		v /= 10
	}
	return string(b)
}
