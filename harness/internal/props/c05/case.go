package c05

import (
	"fmt"
	"strings"
	"sync"

	"github.com/go-text/typesetting/font"
	ot "github.com/go-text/typesetting/font/opentype"
	"github.com/go-text/typesetting/harfbuzz"
	"github.com/go-text/typesetting/language"

	"verifharness/internal/corpus"
	"verifharness/internal/hbref"
	"verifharness/internal/vrun"
)

// Feat is a user feature; End < 0 means "to the end of the buffer".
type Feat struct {
	Tag   string `json:"tag"`
	Value uint32 `json:"value"`
	Start int    `json:"start"`
	End   int    `json:"end"`
}

// Var is one variation setting in design units.
type Var struct {
	Tag   string  `json:"tag"`
	Value float32 `json:"value"`
}

// Go-side buffer flag numbering (harfbuzz.ShappingOptions).
const (
	FBot = 1 << iota
	FEot
	FPreserveDI
	FRemoveDI
	FNoDottedCircle
	FUnsafeToConcat
	FSafeToInsertTatweel
)

// Case is the self-contained description of one shaping request; it is the
// replay witness of C05 and C18.
type Case struct {
	Font  string `json:"font"`  // corpus file id
	Index int    `json:"index"` // face index in the file
	Text  []rune `json:"text"`
	Off   int    `json:"off"`
	Len   int    `json:"len"` // <0: to the end of Text
	// only used when replaying upstream .tests lines (hb-shape --unicodes-before/after)
	Before []rune `json:"before,omitempty"`
	After  []rune `json:"after,omitempty"`

	Dir    int    `json:"dir"`    // 4 LTR, 5 RTL, 6 TTB, 7 BTT; 0 = guessed from the script
	Script string `json:"script"` // ISO 15924 tag, "" = guessed from the text (Go side; passed explicitly to C)
	Lang   string `json:"lang"`   // "" = no language on both sides
	Feats  []Feat `json:"feats,omitempty"`
	Vars   []Var  `json:"vars,omitempty"`
	CL     int    `json:"cluster_level"`
	Flags  int    `json:"flags"` // Go numbering (FBot...)

	ScaleX int32   `json:"scale_x,omitempty"` // 0 = upem
	ScaleY int32   `json:"scale_y,omitempty"`
	PpemX  uint16  `json:"ppem_x,omitempty"`
	PpemY  uint16  `json:"ppem_y,omitempty"`
	Ptem   float32 `json:"ptem,omitempty"`

	Src string `json:"src,omitempty"` // which generator produced the text
}

// Item returns the runes of the shaped item.
func (c *Case) Item() []rune {
	lo, hi := c.itemRange()
	return c.Text[lo:hi]
}

func (c *Case) itemRange() (int, int) {
	lo := c.Off
	if lo < 0 {
		lo = 0
	}
	if lo > len(c.Text) {
		lo = len(c.Text)
	}
	hi := len(c.Text)
	if c.Len >= 0 && lo+c.Len < hi {
		hi = lo + c.Len
	}
	return lo, hi
}

// U formats runes as U+XXXX list.
func U(rs []rune) string {
	var sb strings.Builder
	for i, r := range rs {
		if i > 0 {
			sb.WriteByte(',')
		}
		fmt.Fprintf(&sb, "U+%04X", r)
	}
	return sb.String()
}

// Settings is a compact human-readable description of the non-text settings.
func (c *Case) Settings() string {
	var sb strings.Builder
	fmt.Fprintf(&sb, "dir=%d script=%q lang=%q cl=%d flags=%#x", c.Dir, c.Script, c.Lang, c.CL, c.Flags)
	if c.Off != 0 || c.Len >= 0 {
		fmt.Fprintf(&sb, " item=[%d,+%d)", c.Off, c.Len)
	}
	for _, f := range c.Feats {
		fmt.Fprintf(&sb, " %s[%d:%d]=%d", f.Tag, f.Start, f.End, f.Value)
	}
	for _, v := range c.Vars {
		fmt.Fprintf(&sb, " %s=%g", v.Tag, v.Value)
	}
	if c.ScaleX != 0 || c.ScaleY != 0 {
		fmt.Fprintf(&sb, " scale=%d,%d", c.ScaleX, c.ScaleY)
	}
	if c.PpemX != 0 || c.Ptem != 0 {
		fmt.Fprintf(&sb, " ppem=%d,%d ptem=%g", c.PpemX, c.PpemY, c.Ptem)
	}
	return sb.String()
}

// Hash identifies the case (for the distinct non-trivial count).
func (c *Case) Hash() uint64 {
	return vrun.Hash64(c.Font, c.Index, c.Text, c.Off, c.Len, c.Before, c.After, c.Settings())
}

// G is one output glyph, the unit of comparison.
type G struct {
	GID     uint32 `json:"g"`
	Cluster int    `json:"c"`
	XAdv    int32  `json:"ax"`
	YAdv    int32  `json:"ay"`
	XOff    int32  `json:"dx"`
	YOff    int32  `json:"dy"`
	Mask    uint32 `json:"-"` // glyph flags (low 3 bits); not part of C05 equality
}

func (g G) same(o G) bool {
	return g.GID == o.GID && g.Cluster == o.Cluster && g.XAdv == o.XAdv && g.YAdv == o.YAdv && g.XOff == o.XOff && g.YOff == o.YOff
}

// Equal is the C05 sequence equality (gid, cluster, advances, offsets).
func Equal(a, b []G) bool {
	if len(a) != len(b) {
		return false
	}
	for i := range a {
		if !a[i].same(b[i]) {
			return false
		}
	}
	return true
}

// Fmt prints a glyph sequence in hb-shape style with numeric glyph ids.
func Fmt(gs []G) string {
	if len(gs) > 64 {
		return Fmt(gs[:64]) + fmt.Sprintf("…(%d glyphs)", len(gs))
	}
	var sb strings.Builder
	sb.WriteByte('[')
	for i, g := range gs {
		if i > 0 {
			sb.WriteByte('|')
		}
		fmt.Fprintf(&sb, "%d=%d", g.GID, g.Cluster)
		if g.XOff != 0 || g.YOff != 0 {
			fmt.Fprintf(&sb, "@%d,%d", g.XOff, g.YOff)
		}
		fmt.Fprintf(&sb, "+%d", g.XAdv)
		if g.YAdv != 0 {
			fmt.Fprintf(&sb, ",%d", g.YAdv)
		}
	}
	sb.WriteByte(']')
	return sb.String()
}

// DiffKind names the first kind of difference between two outputs.
func DiffKind(a, b []G) string {
	if len(a) != len(b) {
		return "glyph count"
	}
	for i := range a {
		if a[i].GID != b[i].GID {
			return "glyph id"
		}
	}
	for i := range a {
		if a[i].Cluster != b[i].Cluster {
			return "cluster"
		}
	}
	for i := range a {
		if a[i].XAdv != b[i].XAdv || a[i].YAdv != b[i].YAdv {
			return "advance"
		}
	}
	for i := range a {
		if a[i].XOff != b[i].XOff || a[i].YOff != b[i].YOff {
			return "offset"
		}
	}
	return ""
}

// ---------------------------------------------------------------------------
// engines

var (
	blobMu sync.Mutex
	blobs  = map[string]*hbref.Blob{}
)

// blobFor returns the process-wide C copy of an UNMODIFIED corpus file.
func blobFor(f *corpus.File) *hbref.Blob {
	blobMu.Lock()
	defer blobMu.Unlock()
	if b, ok := blobs[f.ID]; ok {
		return b
	}
	b := hbref.NewBlob(f.Bytes())
	blobs[f.ID] = b
	return b
}

// Pair holds both engines for one face. It is owned by one goroutine.
type Pair struct {
	File  *corpus.File
	Index int
	Go    *font.Font // nil when the Go loader rejects the file

	CFace *hbref.Face
	CFont *hbref.Font
	CBuf  *hbref.Buffer
	cVars string

	goFonts map[string]*harfbuzz.Font // keyed by variations+ppem
	Info    *FontInfo
	gen     *genState
}

// Open prepares both engines for face `index` of corpus file id. ok is false
// when the file is unknown, the Go loader rejects it or the index is out of
// range on either side.
func Open(id string, index int) (*Pair, bool) {
	f := corpus.ByID(id)
	if f == nil {
		return nil, false
	}
	return OpenFile(f, index)
}

func OpenFile(f *corpus.File, index int) (*Pair, bool) {
	fonts, err := f.Fonts()
	if err != nil || index < 0 || index >= len(fonts) {
		return nil, false
	}
	bl := blobFor(f)
	if index >= bl.FaceCount() {
		return nil, false
	}
	p := &Pair{File: f, Index: index, Go: fonts[index], goFonts: map[string]*harfbuzz.Font{}}
	p.CFace = bl.NewFace(index)
	p.CFont = p.CFace.NewFont()
	p.CBuf = hbref.NewBuffer()
	p.cVars = "\x00"
	p.Info = infoFor(p)
	return p, true
}

// Close releases the C objects.
func (p *Pair) Close() {
	p.CBuf.Destroy()
	p.CFont.Destroy()
	p.CFace.Destroy()
}

func (p *Pair) Ref() string { return fmt.Sprintf("%s#%d", p.File.ID, p.Index) }

func varsKey(c *Case) string {
	var sb strings.Builder
	for _, v := range c.Vars {
		fmt.Fprintf(&sb, "%s=%g,", v.Tag, v.Value)
	}
	fmt.Fprintf(&sb, "|%d,%d", c.PpemX, c.PpemY)
	return sb.String()
}

// goFont returns the harfbuzz.Font for the case's variations / ppem, built the
// way /repo/harfbuzz/harfbuzz_shape_test.go builds it.
func (p *Pair) goFont(c *Case) *harfbuzz.Font {
	k := varsKey(c)
	hf, ok := p.goFonts[k]
	if !ok {
		face := font.NewFace(p.Go)
		if c.PpemX != 0 || c.PpemY != 0 {
			face.SetPpem(c.PpemX, c.PpemY)
		}
		if len(c.Vars) > 0 {
			vs := make([]font.Variation, len(c.Vars))
			for i, v := range c.Vars {
				vs[i] = font.Variation{Tag: ot.MustNewTag(pad4(v.Tag)), Value: v.Value}
			}
			face.SetVariations(vs)
		}
		hf = harfbuzz.NewFont(face)
		if len(p.goFonts) > 8 {
			p.goFonts = map[string]*harfbuzz.Font{}
		}
		p.goFonts[k] = hf
	}
	upem := int32(p.Go.Upem())
	hf.XScale, hf.YScale = upem, upem
	if c.ScaleX != 0 {
		hf.XScale = c.ScaleX
	}
	if c.ScaleY != 0 {
		hf.YScale = c.ScaleY
	}
	hf.Ptem = c.Ptem
	return hf
}

func pad4(s string) string {
	for len(s) < 4 {
		s += " "
	}
	return s[:4]
}

// GoFont exposes the Go harfbuzz font of a case (font funcs comparisons).
func (p *Pair) GoFont(c *Case) *harfbuzz.Font { return p.goFont(c) }

// Resolved are the segment properties actually used by both sides.
type Resolved struct {
	Dir    int
	Script uint32
}

func goFeatures(c *Case) []harfbuzz.Feature {
	if len(c.Feats) == 0 {
		return nil
	}
	out := make([]harfbuzz.Feature, len(c.Feats))
	for i, f := range c.Feats {
		out[i] = harfbuzz.Feature{Tag: ot.MustNewTag(pad4(f.Tag)), Value: f.Value, Start: f.Start, End: f.End}
		if f.End < 0 {
			out[i].End = harfbuzz.FeatureGlobalEnd
		}
	}
	return out
}

// newGoBuffer fills a fresh buffer with the item (and context) of the case.
func newGoBuffer(c *Case, text []rune, lo, hi int, flags int) *harfbuzz.Buffer {
	buf := harfbuzz.NewBuffer()
	if len(c.Before) > 0 {
		buf.AddRunes(c.Before, len(c.Before), 0)
	}
	buf.AddRunes(text, lo, hi-lo)
	if len(c.After) > 0 {
		buf.AddRunes(c.After, 0, 0)
	}
	buf.Flags = harfbuzz.ShappingOptions(flags)
	buf.ClusterLevel = harfbuzz.ClusterLevel(c.CL)
	return buf
}

// Resolve computes the direction and script both sides will use: explicit
// values of the case, otherwise what the Go port's GuessSegmentProperties
// derives from the item.
func (p *Pair) Resolve(c *Case) Resolved {
	lo, hi := c.itemRange()
	buf := newGoBuffer(c, c.Text, lo, hi, 0)
	buf.Props.Direction = harfbuzz.Direction(c.Dir)
	if c.Script != "" {
		s, _ := language.ParseScript(pad4(c.Script))
		buf.Props.Script = s
	}
	buf.GuessSegmentProperties()
	return Resolved{Dir: int(buf.Props.Direction), Script: uint32(buf.Props.Script)}
}

// ShapeGoRange shapes text[lo:hi] (with context from text) on the Go side.
// flags is in Go numbering. A panic is returned, never propagated.
func (p *Pair) ShapeGoRange(c *Case, rs Resolved, lo, hi int, flags int) (out []G, pv any, where string) {
	pv, where = vrun.Catch(func() {
		hf := p.goFont(c)
		buf := newGoBuffer(c, c.Text, lo, hi, flags)
		buf.Props.Direction = harfbuzz.Direction(rs.Dir)
		buf.Props.Script = language.Script(rs.Script)
		if c.Lang != "" {
			buf.Props.Language = language.NewLanguage(c.Lang)
		}
		buf.Shape(hf, goFeatures(c))
		out = make([]G, len(buf.Info))
		for i, in := range buf.Info {
			out[i] = G{GID: uint32(in.Glyph), Cluster: in.Cluster, Mask: in.Mask & 7}
			if i < len(buf.Pos) {
				ps := buf.Pos[i]
				out[i].XAdv, out[i].YAdv, out[i].XOff, out[i].YOff = ps.XAdvance, ps.YAdvance, ps.XOffset, ps.YOffset
			}
		}
		if len(buf.Pos) != len(buf.Info) {
			panic(fmt.Sprintf("len(Pos)=%d != len(Info)=%d after Shape", len(buf.Pos), len(buf.Info)))
		}
	})
	return
}

// ShapeGoReused shapes the item of the case on a buffer that has just served the same
// text, font and segment properties under other feature lists (every feature made
// global, every feature cut to a half-open range on either side, no feature): the plan
// cache of a Buffer is keyed by those lists, and a key that confuses two of them hands
// out the wrong plan. Returns "" when the output equals fresh (the output of a new buffer).
func (p *Pair) ShapeGoReused(c *Case, rs Resolved, fresh []G) (diff string) {
	if len(c.Feats) == 0 {
		return ""
	}
	lo, hi := c.itemRange()
	n := hi - lo
	variants := make([][]Feat, 4)
	for _, f := range c.Feats {
		g := f
		g.Start, g.End = 0, -1
		variants[0] = append(variants[0], g)
		h := f
		h.Start, h.End = 0, lo+(n+1)/2
		variants[1] = append(variants[1], h)
		t := f
		t.Start, t.End = lo+n/2, -1
		variants[2] = append(variants[2], t)
	}
	pv, where := vrun.Catch(func() {
		hf := p.goFont(c)
		buf := harfbuzz.NewBuffer()
		fill := func() {
			buf.Clear()
			if len(c.Before) > 0 {
				buf.AddRunes(c.Before, len(c.Before), 0)
			}
			buf.AddRunes(c.Text, lo, hi-lo)
			if len(c.After) > 0 {
				buf.AddRunes(c.After, 0, 0)
			}
			buf.Flags = harfbuzz.ShappingOptions(c.Flags)
			buf.ClusterLevel = harfbuzz.ClusterLevel(c.CL)
			buf.Props.Direction = harfbuzz.Direction(rs.Dir)
			buf.Props.Script = language.Script(rs.Script)
			if c.Lang != "" {
				buf.Props.Language = language.NewLanguage(c.Lang)
			}
		}
		for _, v := range variants {
			cc := *c
			cc.Feats = v
			fill()
			buf.Shape(hf, goFeatures(&cc))
		}
		fill()
		buf.Shape(hf, goFeatures(c))
		out := make([]G, len(buf.Info))
		for i, in := range buf.Info {
			out[i] = G{GID: uint32(in.Glyph), Cluster: in.Cluster, Mask: in.Mask & 7}
			if i < len(buf.Pos) {
				ps := buf.Pos[i]
				out[i].XAdv, out[i].YAdv, out[i].XOff, out[i].YOff = ps.XAdvance, ps.YAdvance, ps.XOffset, ps.YOffset
			}
		}
		if !Equal(out, fresh) {
			diff = "reused: " + Fmt(out)
		}
	})
	if pv != nil {
		return fmt.Sprintf("panic on the reused buffer only: %v at %s", pv, where)
	}
	return diff
}

// ShapeGo shapes the item of the case on the Go side.
func (p *Pair) ShapeGo(c *Case, rs Resolved) ([]G, any, string) {
	lo, hi := c.itemRange()
	return p.ShapeGoRange(c, rs, lo, hi, c.Flags)
}

// cFlags converts Go flag numbering to the C numbering.
func cFlags(f int) int {
	out := f & 0x1f
	if f&FUnsafeToConcat != 0 {
		out |= hbref.FlagProduceUnsafeToConcat
	}
	if f&FSafeToInsertTatweel != 0 {
		out |= hbref.FlagProduceSafeToInsertTatweel
	}
	return out
}

func (p *Pair) prepareC(c *Case) {
	upem := int32(p.CFace.Upem())
	sx, sy := upem, upem
	if c.ScaleX != 0 {
		sx = c.ScaleX
	}
	if c.ScaleY != 0 {
		sy = c.ScaleY
	}
	p.CFont.SetScale(sx, sy)
	p.CFont.SetPpem(c.PpemX, c.PpemY)
	p.CFont.SetPtem(c.Ptem)
	k := varsKey(c)
	if k != p.cVars {
		vs := make([]hbref.Variation, len(c.Vars))
		for i, v := range c.Vars {
			vs[i] = hbref.Variation{Tag: hbref.Tag(v.Tag), Value: v.Value}
		}
		p.CFont.SetVariations(vs)
		p.cVars = k
	}
}

func cInput(c *Case, rs Resolved, lo, hi int, flags int) *hbref.Input {
	in := &hbref.Input{Text: c.Text, ItemOffset: lo, ItemLength: hi - lo, Before: c.Before, After: c.After,
		Direction: rs.Dir, Script: rs.Script, Language: c.Lang, Flags: cFlags(flags), ClusterLevel: c.CL}
	for _, f := range c.Feats {
		cf := hbref.Feature{Tag: hbref.Tag(f.Tag), Value: f.Value, Start: uint32(f.Start), End: uint32(f.End)}
		if f.End < 0 {
			cf.End = hbref.FeatureGlobalEnd
		}
		in.Features = append(in.Features, cf)
	}
	return in
}

// ShapeCRange shapes text[lo:hi] with the C library (unmodified corpus bytes).
func (p *Pair) ShapeCRange(c *Case, rs Resolved, lo, hi int, flags int) (out []G, ok bool) {
	p.prepareC(c)
	res := p.CBuf.Shape(p.CFont, cInput(c, rs, lo, hi, flags))
	out = make([]G, len(res.Glyphs))
	for i, g := range res.Glyphs {
		out[i] = G{GID: g.GID, Cluster: int(g.Cluster), XAdv: g.XAdv, YAdv: g.YAdv, XOff: g.XOff, YOff: g.YOff, Mask: g.Mask & 7}
	}
	return out, res.OK
}

// ShapeC shapes the item of the case with the C library.
func (p *Pair) ShapeC(c *Case, rs Resolved) ([]G, bool) {
	lo, hi := c.itemRange()
	return p.ShapeCRange(c, rs, lo, hi, c.Flags)
}

// Trivial reports whether out is the identity cmap mapping of the item with
// default advances and no offsets (horizontal) — the C05 non-triviality rule
// is the negation on either side.
func (p *Pair) Trivial(c *Case, rs Resolved, out []G) bool {
	item := c.Item()
	if len(out) != len(item) {
		return false
	}
	lo, _ := c.itemRange()
	hf := p.goFont(c)
	backward := rs.Dir == hbref.DirRTL || rs.Dir == hbref.DirBTT
	triv := true
	vrun.Catch(func() {
		for i, g := range out {
			k := i
			if backward {
				k = len(item) - 1 - i
			}
			gid, _ := hf.Face().NominalGlyph(item[k])
			if g.GID != uint32(gid) || g.Cluster != lo+k {
				triv = false
				return
			}
			ax, ay := hf.GlyphAdvanceForDirection(ot.GID(g.GID), harfbuzz.Direction(rs.Dir))
			if g.XAdv != ax || g.YAdv != ay {
				triv = false
				return
			}
			if rs.Dir == hbref.DirLTR || rs.Dir == hbref.DirRTL {
				if g.XOff != 0 || g.YOff != 0 {
					triv = false
					return
				}
			}
		}
	})
	return triv
}
