package c05

import (
	"encoding/json"
	"fmt"
	"os"
	"sort"
	"strings"
	"sync"
	"unicode"

	"github.com/go-text/typesetting/language"
	ucd "github.com/go-text/typesetting/unicodedata"

	"verifharness/internal/hbref"
	"verifharness/internal/vrun"
)

// ---------------------------------------------------------------------------
// shaper category (a function of script and direction only, so that a skew
// class built on it is a property of the INPUT)

var (
	indicScripts = "Beng Deva Gujr Guru Knda Mlym Orya Taml Telu"
	useScripts   = "Tibt Mong Sinh Buhd Hano Tglg Tagb Limb Tale Bugi Khar Sylo Tfng Bali Nkoo Phag Cham Kali Lepc Rjng Saur Sund Egyp Java Kthi Mtei Lana Tavt Batk Brah Mand Cakm Plrd Shrd Takr Dupl Gran Khoj Sind Mahj Mani Modi Hmng Phlp Sidd Tirh Ahom Mult Adlm Bhks Marc Newa Gonm Soyo Zanb Dogr Gong Rohg Maka Medf Sogo Sogd Elym Nand Hmnp Wcho Chrs Diak Kits Yezi Cpmn Ougr Tnsa Toto Vith Kawi Nagm"
	catOf        = map[uint32]string{}
)

func init() {
	for _, s := range strings.Fields(indicScripts) {
		catOf[hbref.Tag(s)] = "indic"
	}
	for _, s := range strings.Fields(useScripts) {
		catOf[hbref.Tag(s)] = "use"
	}
	catOf[hbref.Tag("Arab")] = "arabic"
	catOf[hbref.Tag("Syrc")] = "arabic"
	catOf[hbref.Tag("Thai")] = "thai"
	catOf[hbref.Tag("Laoo")] = "thai"
	catOf[hbref.Tag("Hang")] = "hangul"
	catOf[hbref.Tag("Hebr")] = "hebrew"
	catOf[hbref.Tag("Khmr")] = "khmer"
	catOf[hbref.Tag("Mymr")] = "myanmar"
	catOf[hbref.Tag("Qaag")] = "myanmar"
}

// ShaperCategory is the family of complex shaper upstream selects for a script
// (hb_ot_shaper_categorize, ignoring the font-dependent fallbacks to the
// default shaper): default, arabic, hebrew, thai, hangul, indic, khmer,
// myanmar, use.
func ShaperCategory(script uint32, dir int) string {
	c, ok := catOf[script]
	if !ok {
		return "default"
	}
	if c == "arabic" && dir != hbref.DirLTR && dir != hbref.DirRTL {
		return "default"
	}
	return c
}

// Syllabic reports categories whose shaper runs a syllable machine and inserts
// dotted circles into broken clusters.
func Syllabic(cat string) bool {
	return cat == "indic" || cat == "use" || cat == "khmer" || cat == "myanmar"
}

// ---------------------------------------------------------------------------

// DriftExample is one upstream expectation the C library does not reproduce.
type DriftExample struct {
	File     string `json:"file"`
	Line     string `json:"line"`
	Got      string `json:"got"`
	Category string `json:"category"`
}

// Skew is the measured part of the skew classes; computed once per run by the
// parent process and handed to the workers through a file.
type Skew struct {
	HBVersion string `json:"hb_version"`
	// (a) measured drift
	TestsReplayed int            `json:"tests_replayed"`
	TestsEqual    int            `json:"tests_equal"`
	TestsSkipped  int            `json:"tests_skipped"`
	Drift         map[string]int `json:"drift"` // "font#index|category" -> number of differing upstream tests
	DriftExamples []DriftExample `json:"drift_examples"`
	// (b) Unicode skew: code point -> bitmask (1 gc, 2 ccc, 4 script, 8 mirroring, 16 decomposition)
	UniRunes []rune  `json:"uni_runes"`
	UniBits  []uint8 `json:"uni_bits"`
	UniCount [5]int  `json:"uni_count"`
	// code points the port's general-category table leaves unassigned although
	// both Unicode-15.0 references assign them (data defect, not skew)
	PortGCDefect int `json:"port_gc_defect"`

	uni map[rune]uint8
}

func (s *Skew) index() {
	s.uni = make(map[rune]uint8, len(s.UniRunes))
	for i, r := range s.UniRunes {
		s.uni[r] = s.UniBits[i]
	}
}

// UniSkew returns the bitmask of Unicode properties on which the two
// implementations' data disagree for r.
func (s *Skew) UniSkew(r rune) uint8 { return s.uni[r] }

// Save / LoadSkew move the table between parent and workers.
func (s *Skew) Save(path string) error {
	b, err := json.Marshal(s)
	if err != nil {
		return err
	}
	return os.WriteFile(path, b, 0o644)
}

func LoadSkew(path string) (*Skew, error) {
	b, err := os.ReadFile(path)
	if err != nil {
		return nil, err
	}
	s := &Skew{}
	if err := json.Unmarshal(b, s); err != nil {
		return nil, err
	}
	s.index()
	return s, nil
}

var goCategories = [...]*unicode.RangeTable{
	ucd.Cc, ucd.Cf, nil, ucd.Co, ucd.Cs, ucd.Ll, ucd.Lm, ucd.Lo, ucd.Lt, ucd.Lu, ucd.Mc, ucd.Me, ucd.Mn,
	ucd.Nd, ucd.Nl, ucd.No, ucd.Pc, ucd.Pd, ucd.Pe, ucd.Pf, ucd.Pi, ucd.Po, ucd.Ps, ucd.Sc, ucd.Sk, ucd.Sm, ucd.So,
	ucd.Zl, ucd.Zp, ucd.Zs,
}

var stdCategories = [...]*unicode.RangeTable{
	unicode.Cc, unicode.Cf, nil, unicode.Co, unicode.Cs, unicode.Ll, unicode.Lm, unicode.Lo, unicode.Lt, unicode.Lu,
	unicode.Mc, unicode.Me, unicode.Mn, unicode.Nd, unicode.Nl, unicode.No, unicode.Pc, unicode.Pd, unicode.Pe,
	unicode.Pf, unicode.Pi, unicode.Po, unicode.Ps, unicode.Sc, unicode.Sk, unicode.Sm, unicode.So,
	unicode.Zl, unicode.Zp, unicode.Zs,
}

// stdGeneralCategory is the general category according to the Go standard
// library (Unicode 15.0.0), in hb numbering.
func stdGeneralCategory(r rune) uint8 {
	for i, c := range stdCategories {
		if c != nil && unicode.Is(c, r) {
			return uint8(i)
		}
	}
	return 2
}

// GoGeneralCategory returns the general category of r in the numbering of
// hb_unicode_general_category_t (2 = unassigned), from the Go port's tables.
func GoGeneralCategory(r rune) uint8 {
	// same scan as harfbuzz/unicode.go generalCategory (the shaper's own tables,
	// not the Go standard library's)
	for i, c := range goCategories {
		if c != nil && unicode.Is(c, r) {
			return uint8(i)
		}
	}
	return 2
}

// ComputeSkew measures (a) and (b).
func ComputeSkew() *Skew {
	s := &Skew{HBVersion: hbref.Version(), Drift: map[string]int{}}

	// (b) Unicode data, plane by plane in parallel
	const chunk = 0x1000
	nChunks := 0x110000 / chunk
	type ent struct {
		r rune
		b uint8
	}
	res := make([][]ent, nChunks)
	defects := make([]int, nChunks)
	vrun.ParallelFor(nChunks, func(k int) {
		lo := uint32(k * chunk)
		t := hbref.DumpUnicode(lo, lo+chunk)
		for i := 0; i < chunk; i++ {
			r := rune(lo) + rune(i)
			var b uint8
			if g := GoGeneralCategory(r); g != t.GC[i] {
				if g == 2 && t.GC[i] != 2 && stdGeneralCategory(r) == t.GC[i] {
					// NOT version skew: the port's table says "unassigned" for a
					// code point that HarfBuzz 6.0.0 and the Go standard library
					// (both Unicode 15.0) agree is assigned. These are the
					// interiors of the First/Last ranges of UnicodeData.txt (CJK
					// ideographs, Hangul syllables, Tangut, private use,
					// surrogates) which unicodedata/general_category.go stores
					// as two end points. A defect of the port's data, so the
					// reference stays authoritative for such text.
					defects[k]++
				} else {
					b |= 1
				}
			}
			if ucd.LookupCombiningClass(r) != t.CCC[i] {
				b |= 2
			}
			if uint32(language.LookupScript(r)) != t.Script[i] {
				b |= 4
			}
			if m, _ := ucd.LookupMirrorChar(r); uint32(m) != t.Mirror[i] {
				b |= 8
			}
			da, db, ok := ucd.Decompose(r)
			if !ok {
				if t.DecA[i] != 0xFFFFFFFF {
					b |= 16
				}
			} else if uint32(da) != t.DecA[i] || uint32(db) != t.DecB[i] {
				b |= 16
			}
			if b != 0 {
				res[k] = append(res[k], ent{r, b})
			}
		}
	})
	for _, es := range res {
		for _, e := range es {
			s.UniRunes = append(s.UniRunes, e.r)
			s.UniBits = append(s.UniBits, e.b)
			for j := 0; j < 5; j++ {
				if e.b&(1<<j) != 0 {
					s.UniCount[j]++
				}
			}
		}
	}
	for _, d := range defects {
		s.PortGCDefect += d
	}
	s.index()

	// (a) replay the upstream expectation files through the C library
	tests := UpstreamTests()
	s.TestsSkipped = testsBad + testsDisabled
	var mu sync.Mutex
	// group by font so that each worker opens a face once
	byFont := map[string][]int{}
	var keys []string
	for i := range tests {
		k := fmt.Sprintf("%s#%d", tests[i].Case.Font, tests[i].Case.Index)
		if _, ok := byFont[k]; !ok {
			keys = append(keys, k)
		}
		byFont[k] = append(byFont[k], i)
	}
	sort.Strings(keys)
	vrun.ParallelFor(len(keys), func(ki int) {
		idxs := byFont[keys[ki]]
		t0 := &tests[idxs[0]]
		p, ok := Open(t0.Case.Font, t0.Case.Index)
		if !ok {
			mu.Lock()
			s.TestsSkipped += len(idxs)
			mu.Unlock()
			return
		}
		defer p.Close()
		for _, i := range idxs {
			t := &tests[i]
			if t.Expected == "*" {
				mu.Lock()
				s.TestsSkipped++
				mu.Unlock()
				continue
			}
			got, script, dir := p.ShapeCUpstream(t)
			cat := ShaperCategory(script, dir)
			if p.Info.Morx {
				cat = "aat+" + cat
			}
			mu.Lock()
			s.TestsReplayed++
			if got == t.Expected {
				s.TestsEqual++
			} else {
				s.Drift[keys[ki]+"|"+cat]++
				if len(s.DriftExamples) < 400 {
					s.DriftExamples = append(s.DriftExamples, DriftExample{File: t.File, Line: t.Line, Got: got, Category: cat})
				}
			}
			mu.Unlock()
		}
	})
	sort.Slice(s.DriftExamples, func(i, j int) bool {
		if s.DriftExamples[i].File != s.DriftExamples[j].File {
			return s.DriftExamples[i].File < s.DriftExamples[j].File
		}
		return s.DriftExamples[i].Line < s.DriftExamples[j].Line
	})
	return s
}

// ShapeCUpstream runs one upstream test line through the C library exactly as
// hb-shape would (guessing unset segment properties) and returns the hb-shape
// serialisation plus the resolved script and direction.
func (p *Pair) ShapeCUpstream(t *UpstreamTest) (string, uint32, int) {
	c := &t.Case
	p.prepareC(c)
	in := cInput(c, Resolved{Dir: c.Dir, Script: 0}, 0, len(c.Text), c.Flags)
	if c.Script != "" {
		in.Script = hbref.Tag(c.Script)
	}
	in.Guess = true
	res := p.CBuf.Shape(p.CFont, in)
	return p.CBuf.Serialize(p.CFont, t.SerFlags), res.Script, res.Direction
}

// DriftKey is the key of the drift table for a face and category.
func DriftKey(ref, cat string, morx bool) string {
	if morx {
		cat = "aat+" + cat
	}
	return ref + "|" + cat
}
