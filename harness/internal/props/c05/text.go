package c05

import (
	"os"
	"path/filepath"
	"sort"
	"strings"
	"sync"

	"verifharness/internal/corpus"
	"verifharness/internal/gen"
)

// Alphabet is a compact per-script inventory used to build syllable-shaped
// and deliberately ill-formed sequences.
type Alphabet struct {
	Name   string
	Script string // ISO 15924
	RTL    bool
	Base   []rune // consonants / letters / independent vowels
	Signs  []rune // dependent vowel signs, tone marks, combining marks
	Join   []rune // virama / coeng / asat / joiners specific to the script
	Extra  []rune // digits, punctuation, script-specific symbols
	Probe  []rune // if the font maps all of these the alphabet is "covered"
}

func rr(ranges ...rune) []rune {
	var out []rune
	for i := 0; i+1 < len(ranges); i += 2 {
		for r := ranges[i]; r <= ranges[i+1]; r++ {
			out = append(out, r)
		}
	}
	return out
}

func cat(xs ...[]rune) []rune {
	var out []rune
	for _, x := range xs {
		out = append(out, x...)
	}
	return out
}

// Alphabets: the major complex scripts plus Latin with combining marks.
var Alphabets = []*Alphabet{
	{Name: "latin", Script: "Latn",
		Base:  cat(rr('A', 'Z', 'a', 'z'), []rune{0xC0, 0xC9, 0xE9, 0xF1, 0xFC, 0x131, 0x141, 0x17F, 0xDF, 0xE6, 0x153}),
		Signs: cat(rr(0x300, 0x30C), []rune{0x323, 0x327, 0x328, 0x32E, 0x331, 0x33F, 0x345, 0x35C, 0x361, 0x20DD}),
		Extra: cat(rr('0', '9'), []rune{'.', ',', '-', '\'', '"', '(', ')', '/', 0x2044, 0x2019, 0x2013, '!', '?', ':', '&'}),
		Probe: []rune{'A', 'e'}},
	{Name: "greek-cyrillic", Script: "Grek",
		Base:  cat(rr(0x391, 0x3A9, 0x3B1, 0x3C9), rr(0x410, 0x44F), []rune{0x3AC, 0x3CC, 0x1F00, 0x1F80, 0x457, 0x491}),
		Signs: []rune{0x300, 0x301, 0x308, 0x313, 0x314, 0x342, 0x345, 0x306, 0x483},
		Extra: []rune{' ', '.', 0x387, 0x37E},
		Probe: []rune{0x3B1}},
	{Name: "arabic", Script: "Arab", RTL: true,
		Base:  cat(rr(0x621, 0x63A, 0x641, 0x64A), []rune{0x671, 0x679, 0x67E, 0x686, 0x688, 0x691, 0x698, 0x6A9, 0x6AF, 0x6BA, 0x6BE, 0x6C1, 0x6CC, 0x6D2, 0x6D5, 0x640}),
		Signs: cat(rr(0x64B, 0x655), []rune{0x610, 0x615, 0x656, 0x658, 0x670, 0x6D6, 0x6DC, 0x6DF, 0x6E1, 0x6EA, 0x8F0}),
		Join:  []rune{0x200D, 0x200C, 0x640, 0x34F},
		Extra: cat(rr(0x660, 0x669), rr(0x6F0, 0x6F9), []rune{0x60C, 0x61B, 0x61F, 0x66A, 0x66B, 0x6D4, 0x600, 0x6DD, ' ', 0x2044, '(', ')'}),
		Probe: []rune{0x628, 0x627}},
	{Name: "syriac", Script: "Syrc", RTL: true,
		Base:  rr(0x710, 0x72F),
		Signs: rr(0x730, 0x74A),
		Join:  []rune{0x200D, 0x200C, 0x70F},
		Extra: []rune{0x700, 0x701, ' '},
		Probe: []rune{0x712}},
	{Name: "hebrew", Script: "Hebr", RTL: true,
		Base:  cat(rr(0x5D0, 0x5EA), []rune{0x5F0, 0x5F1, 0x5F2, 0xFB2A, 0xFB2B, 0xFB4B}),
		Signs: cat(rr(0x591, 0x5AF), rr(0x5B0, 0x5BD), []rune{0x5BF, 0x5C1, 0x5C2, 0x5C4, 0x5C5, 0x5C7}),
		Join:  []rune{0x200D, 0x34F},
		Extra: []rune{0x5BE, 0x5C0, 0x5C3, 0x5F3, 0x5F4, ' ', '-'},
		Probe: []rune{0x5D0}},
	{Name: "devanagari", Script: "Deva",
		Base:  cat(rr(0x904, 0x939), []rune{0x958, 0x95F, 0x960, 0x972, 0x97B}),
		Signs: cat(rr(0x900, 0x903), rr(0x93A, 0x93C), rr(0x93E, 0x94C), []rune{0x94E, 0x94F, 0x951, 0x952, 0x955, 0x962, 0x963, 0xA8E0, 0x1CD0}),
		Join:  []rune{0x94D, 0x200D, 0x200C, 0x93C},
		Extra: cat(rr(0x966, 0x96F), []rune{0x964, 0x965, 0x970, 0x93D, 0x950, ' ', 0x25CC}),
		Probe: []rune{0x915, 0x94D}},
	{Name: "bengali", Script: "Beng",
		Base:  cat(rr(0x985, 0x98C), rr(0x993, 0x9A8), rr(0x9AA, 0x9B0), []rune{0x98F, 0x990, 0x9B2, 0x9B6, 0x9B7, 0x9B8, 0x9B9, 0x9DC, 0x9DD, 0x9DF, 0x9CE, 0x9F0, 0x9F1}),
		Signs: cat(rr(0x981, 0x983), rr(0x9BE, 0x9C4), []rune{0x9BC, 0x9C7, 0x9C8, 0x9CB, 0x9CC, 0x9D7, 0x9E2, 0x9E3, 0x9FE}),
		Join:  []rune{0x9CD, 0x200D, 0x200C, 0x9BC},
		Extra: cat(rr(0x9E6, 0x9EF), []rune{0x964, 0x9F2, 0x9F3, ' ', 0x25CC}),
		Probe: []rune{0x995, 0x9CD}},
	{Name: "gurmukhi-gujarati", Script: "Gujr",
		Base:  cat(rr(0xA95, 0xAA8), rr(0xAAA, 0xAB0), []rune{0xA85, 0xA87, 0xAB2, 0xAB5, 0xAB8, 0xAB9}),
		Signs: cat(rr(0xA81, 0xA83), rr(0xABE, 0xAC5), []rune{0xABC, 0xAC7, 0xAC8, 0xACB, 0xACC}),
		Join:  []rune{0xACD, 0x200D, 0x200C},
		Extra: cat(rr(0xAE6, 0xAEF), []rune{' ', 0x25CC}),
		Probe: []rune{0xA95, 0xACD}},
	{Name: "tamil", Script: "Taml",
		Base:  []rune{0xB85, 0xB86, 0xB87, 0xB89, 0xB8E, 0xB92, 0xB95, 0xB99, 0xB9A, 0xB9C, 0xB9E, 0xB9F, 0xBA3, 0xBA4, 0xBA8, 0xBA9, 0xBAA, 0xBAE, 0xBAF, 0xBB0, 0xBB1, 0xBB2, 0xBB3, 0xBB4, 0xBB5, 0xBB6, 0xBB7, 0xBB8, 0xBB9},
		Signs: cat([]rune{0xB82, 0xB83}, rr(0xBBE, 0xBC2), rr(0xBC6, 0xBC8), rr(0xBCA, 0xBCC), []rune{0xBD7}),
		Join:  []rune{0xBCD, 0x200D, 0x200C},
		Extra: cat(rr(0xBE6, 0xBEF), []rune{0xBF0, 0xBF9, ' ', 0x25CC}),
		Probe: []rune{0xB95, 0xBCD}},
	{Name: "telugu-kannada", Script: "Telu",
		Base:  cat(rr(0xC15, 0xC28), rr(0xC2A, 0xC39), []rune{0xC05, 0xC07, 0xC0E}, rr(0xC95, 0xCA8), rr(0xCAA, 0xCB3), rr(0xCB5, 0xCB9)),
		Signs: cat(rr(0xC00, 0xC03), rr(0xC3E, 0xC44), rr(0xC46, 0xC48), rr(0xC4A, 0xC4C), []rune{0xC55, 0xC56, 0xC62}, rr(0xC81, 0xC83), rr(0xCBC, 0xCC4), rr(0xCC6, 0xCC8), rr(0xCCA, 0xCCC), []rune{0xCD5, 0xCD6}),
		Join:  []rune{0xC4D, 0xCCD, 0x200D, 0x200C},
		Extra: cat(rr(0xC66, 0xC6F), rr(0xCE6, 0xCEF), []rune{' ', 0x25CC}),
		Probe: []rune{0xC15}},
	{Name: "kannada", Script: "Knda",
		Base:  cat(rr(0xC95, 0xCA8), rr(0xCAA, 0xCB3), rr(0xCB5, 0xCB9), []rune{0xC85, 0xC87, 0xC8E, 0xCDE}),
		Signs: cat(rr(0xC81, 0xC83), rr(0xCBC, 0xCC4), rr(0xCC6, 0xCC8), rr(0xCCA, 0xCCC), []rune{0xCD5, 0xCD6, 0xCE2}),
		Join:  []rune{0xCCD, 0x200D, 0x200C},
		Extra: cat(rr(0xCE6, 0xCEF), []rune{' ', 0x25CC, 0xCF1}),
		Probe: []rune{0xC95, 0xCCD}},
	{Name: "malayalam", Script: "Mlym",
		Base:  cat(rr(0xD15, 0xD39), []rune{0xD05, 0xD07, 0xD0E, 0xD7A, 0xD7B, 0xD7C, 0xD7D, 0xD7E, 0xD7F}),
		Signs: cat(rr(0xD00, 0xD03), rr(0xD3E, 0xD44), rr(0xD46, 0xD48), rr(0xD4A, 0xD4C), []rune{0xD3B, 0xD3C, 0xD57, 0xD62}),
		Join:  []rune{0xD4D, 0x200D, 0x200C, 0xD4E},
		Extra: cat(rr(0xD66, 0xD6F), []rune{' ', 0x25CC}),
		Probe: []rune{0xD15, 0xD4D}},
	{Name: "sinhala", Script: "Sinh",
		Base:  cat(rr(0xD9A, 0xDB1), rr(0xDB3, 0xDBB), []rune{0xD85, 0xD89, 0xDBD, 0xDC0, 0xDC3, 0xDC4, 0xDC5, 0xDC6}),
		Signs: cat([]rune{0xD81, 0xD82, 0xD83}, rr(0xDCF, 0xDD4), []rune{0xDD6}, rr(0xDD8, 0xDDF), []rune{0xDF2, 0xDF3}),
		Join:  []rune{0xDCA, 0x200D, 0x200C},
		Extra: cat(rr(0xDE6, 0xDEF), []rune{' ', 0xDF4, 0x25CC}),
		Probe: []rune{0xD9A, 0xDCA}},
	{Name: "thai-lao", Script: "Thai",
		Base:  cat(rr(0xE01, 0xE2E), rr(0xE40, 0xE44), []rune{0xE2F, 0xE30, 0xE32, 0xE33, 0xE45, 0xE46}, rr(0xE81, 0xE82), []rune{0xE84, 0xE87, 0xE88, 0xE8A, 0xE8D}, rr(0xE94, 0xE97), rr(0xE99, 0xE9F), rr(0xEC0, 0xEC4), []rune{0xEB0, 0xEB2, 0xEB3}),
		Signs: cat([]rune{0xE31}, rr(0xE34, 0xE3A), rr(0xE47, 0xE4E), []rune{0xEB1}, rr(0xEB4, 0xEB9), []rune{0xEBB, 0xEBC}, rr(0xEC8, 0xECD)),
		Join:  []rune{0xE3A, 0x200B, 0x200D},
		Extra: cat(rr(0xE50, 0xE59), rr(0xED0, 0xED9), []rune{0xE3F, 0xE4F, 0xE5A, ' ', 0x25CC}),
		Probe: []rune{0xE01}},
	{Name: "tibetan", Script: "Tibt",
		Base:  cat(rr(0xF40, 0xF47), rr(0xF49, 0xF6C), rr(0xF88, 0xF8C)),
		Signs: cat(rr(0xF71, 0xF84), []rune{0xF18, 0xF19, 0xF35, 0xF37, 0xF39, 0xF3E, 0xF3F, 0xF86, 0xF87, 0xFC6}, rr(0xF90, 0xF97), rr(0xF99, 0xFBC)),
		Join:  []rune{0xF84, 0xF0B, 0xF0C, 0x200D},
		Extra: cat(rr(0xF20, 0xF29), []rune{0xF00, 0xF04, 0xF0D, 0xF0E, 0xF3A, 0xF3B, ' ', 0x25CC}),
		Probe: []rune{0xF40}},
	{Name: "myanmar", Script: "Mymr",
		Base:  cat(rr(0x1000, 0x102A), []rune{0x103F, 0x104E, 0x1050, 0x1051, 0x105A, 0x1061, 0x1065, 0x106E, 0x1075, 0x108E}),
		Signs: cat(rr(0x102B, 0x1038), rr(0x103B, 0x103E), rr(0x1056, 0x1059), rr(0x105E, 0x1060), []rune{0x1062, 0x1067, 0x1071, 0x1082, 0x1084, 0x1085, 0x1087, 0x108D, 0x109A, 0xA9E5}),
		Join:  []rune{0x1039, 0x103A, 0x200D, 0x200C},
		Extra: cat(rr(0x1040, 0x1049), []rune{0x104A, 0x104B, 0x104C, ' ', 0x25CC}),
		Probe: []rune{0x1000, 0x1039}},
	{Name: "khmer", Script: "Khmr",
		Base:  cat(rr(0x1780, 0x17B3)),
		Signs: cat(rr(0x17B6, 0x17D1), []rune{0x17D3, 0x17DD, 0x17B4, 0x17B5}),
		Join:  []rune{0x17D2, 0x200D, 0x200C},
		Extra: cat(rr(0x17E0, 0x17E9), []rune{0x17D4, 0x17D5, 0x17D7, 0x17DB, ' ', 0x25CC}),
		Probe: []rune{0x1780, 0x17D2}},
	{Name: "hangul-jamo", Script: "Hang",
		Base:  cat(rr(0x1100, 0x1112), []rune{0x1113, 0x114C, 0x1159, 0x115F, 0xA960, 0xA97C}, rr(0xAC00, 0xAC02), []rune{0xAC1C, 0xD55C, 0xD7A3, 0x3131, 0x314F}),
		Signs: cat(rr(0x1161, 0x1175), []rune{0x1160, 0x1176, 0x11A7, 0xD7B0, 0xD7C6}, rr(0x11A8, 0x11C2), []rune{0x11C3, 0x11F9, 0x11FF, 0xD7CB, 0xD7FB, 0x302E, 0x302F}),
		Join:  []rune{0x115F, 0x1160, 0x200D},
		Extra: []rune{' ', 0x3001, 0x25CC},
		Probe: []rune{0x1100, 0x1161}},
	{Name: "balinese-javanese", Script: "Java",
		Base:  cat(rr(0xA984, 0xA9B2), rr(0x1B05, 0x1B33)),
		Signs: cat(rr(0xA980, 0xA983), rr(0xA9B3, 0xA9BF), rr(0x1B00, 0x1B04), rr(0x1B34, 0x1B43), rr(0x1B6B, 0x1B73)),
		Join:  []rune{0xA9C0, 0x1B44, 0x200D, 0x200C},
		Extra: cat(rr(0xA9D0, 0xA9D9), rr(0x1B50, 0x1B59), []rune{' ', 0x25CC}),
		Probe: []rune{0xA984}},
	{Name: "nko-mongolian", Script: "Nkoo", RTL: true,
		Base:  cat(rr(0x7CA, 0x7EA), rr(0x1820, 0x1842)),
		Signs: cat(rr(0x7EB, 0x7F3), []rune{0x7FD, 0x180B, 0x180C, 0x180D, 0x18A9}),
		Join:  []rune{0x7FA, 0x200D, 0x200C, 0x180E, 0x202F},
		Extra: cat(rr(0x7C0, 0x7C9), rr(0x1810, 0x1819), []rune{' ', 0x1802, 0x1803}),
		Probe: []rune{0x7CA}},
}

// Misc is the "class tuple" material mixed into any alphabet: spaces, default
// ignorables, joiners, variation selectors, fraction slash and digits.
var (
	spaces      = []rune{' ', 0xA0, 0x1680, 0x2000, 0x2002, 0x2003, 0x2004, 0x2005, 0x2006, 0x2007, 0x2008, 0x2009, 0x200A, 0x202F, 0x205F, 0x3000}
	ignorables  = []rune{0xAD, 0x34F, 0x61C, 0x200B, 0x200C, 0x200D, 0x200E, 0x200F, 0x202A, 0x202C, 0x2060, 0x2061, 0x2064, 0x2066, 0x2069, 0xFE00, 0xFE0E, 0xFE0F, 0xFEFF, 0xE0100, 0xE0020, 0x1D173, 0x180B, 0x115F, 0x3164, 0xFFA0}
	digitsFrac  = []rune{'0', '1', '2', '3', '4', '5', '6', '7', '8', '9', 0x2044, '/', ',', '.', 0x2215}
	controlsEtc = []rune{0x9, 0xA, 0xD, 0x7F, 0x85, 0x2028, 0x2029, 0xFFFC, 0xFFFD, 0x25CC}
)

// ---------------------------------------------------------------------------

// covered reports whether every probe rune of the alphabet is mapped.
func covered(fi *FontInfo, a *Alphabet) bool {
	for _, r := range a.Probe {
		i := sort.Search(len(fi.Runes), func(i int) bool { return fi.Runes[i] >= r })
		if i >= len(fi.Runes) || fi.Runes[i] != r {
			return false
		}
	}
	return true
}

// CoveredAlphabets lists the alphabets a face covers.
func CoveredAlphabets(fi *FontInfo) []*Alphabet {
	var out []*Alphabet
	for _, a := range Alphabets {
		if covered(fi, a) {
			out = append(out, a)
		}
	}
	return out
}

// AlphabetText builds one text from an alphabet: mostly syllable-shaped
// (base [join base]* sign*), sometimes ill-formed (signs first, doubled
// joiners, joiner runs), with spaces / ignorables / digits sprinkled in.
func AlphabetText(r *gen.RNG, a *Alphabet) []rune {
	n := r.Range(1, 4)
	var out []rune
	pick := func(xs []rune) {
		if len(xs) > 0 {
			out = append(out, gen.Pick(r, xs))
		}
	}
	for s := 0; s < n; s++ {
		switch k := r.Intn(20); {
		case k < 11: // well-formed syllable
			pick(a.Base)
			for r.Chance(1, 3) {
				pick(a.Join)
				pick(a.Base)
			}
			for m := r.Intn(3); m > 0; m-- {
				pick(a.Signs)
			}
		case k < 13: // marks first / lone signs
			pick(a.Signs)
			pick(a.Signs)
			if r.Bool() {
				pick(a.Base)
			}
		case k < 15: // doubled joiner, joiner at the edge
			pick(a.Base)
			pick(a.Join)
			pick(a.Join)
			if r.Bool() {
				pick(a.Base)
			}
		case k < 16:
			pick(a.Join)
			pick(a.Base)
			pick(a.Signs)
		case k < 18:
			pick(a.Extra)
			if r.Bool() {
				pick(a.Extra)
			}
		case k < 19:
			pick(a.Base)
			pick(ignorables)
			pick(a.Base)
		default:
			pick(a.Base)
			pick(a.Base)
			pick(a.Base)
		}
		if r.Chance(1, 4) {
			pick(spaces)
		}
	}
	return out
}

// MiscText builds the "class tuple" style texts: digits around a fraction
// slash, spaces, default ignorables, ZWJ/ZWNJ between letters, Latin with
// stacked combining marks.
func MiscText(r *gen.RNG, letters []rune) []rune {
	if len(letters) == 0 {
		letters = Alphabets[0].Base
	}
	var out []rune
	pick := func(xs []rune) { out = append(out, gen.Pick(r, xs)) }
	switch r.Intn(7) {
	case 0: // fraction, possibly one-sided, chained ("1⁄2⁄3") or with a doubled slash
		for k := r.Intn(4); k > 0; k-- {
			out = append(out, rune('0'+r.Intn(10)))
		}
		for links := 1 + r.Intn(3)*r.Intn(2); links > 0; links-- {
			out = append(out, 0x2044)
			if r.Chance(1, 8) {
				out = append(out, 0x2044)
			}
			for k := r.Intn(4); k > 0; k-- {
				out = append(out, rune('0'+r.Intn(10)))
			}
		}
		if r.Bool() {
			pick(letters)
		}
	case 1: // spaces between letters
		pick(letters)
		pick(spaces)
		pick(letters)
		pick(spaces)
		pick(spaces)
	case 2: // default ignorables
		pick(letters)
		pick(ignorables)
		pick(letters)
		if r.Bool() {
			pick(ignorables)
			pick(ignorables)
		}
	case 3: // joiners
		pick(letters)
		out = append(out, gen.Pick(r, []rune{0x200D, 0x200C}))
		pick(letters)
		pick(letters)
	case 4: // stacked marks on a letter
		pick(letters)
		for k := r.Range(1, 4); k > 0; k-- {
			pick(Alphabets[0].Signs)
		}
		pick(letters)
	case 5:
		for k := r.Range(2, 6); k > 0; k-- {
			pick(digitsFrac)
		}
	default:
		pick(letters)
		pick(controlsEtc)
		pick(letters)
	}
	return out
}

// CmapLocalText draws runes from a window of 40 consecutive mapped runes.
func CmapLocalText(r *gen.RNG, fi *FontInfo) []rune {
	if len(fi.Runes) == 0 {
		return []rune{'a'}
	}
	w := 40
	start := r.Intn(len(fi.Runes))
	if start+w > len(fi.Runes) {
		w = len(fi.Runes) - start
	}
	n := r.Range(1, 10)
	out := make([]rune, n)
	for i := range out {
		out[i] = fi.Runes[start+r.Intn(w)]
	}
	return out
}

// ---------------------------------------------------------------------------
// (iv) real text

var (
	perfOnce  sync.Once
	perfTexts map[string][][]rune // file -> words
)

func perfWords() map[string][][]rune {
	perfOnce.Do(func() {
		perfTexts = map[string][][]rune{}
		dir := filepath.Join(corpus.UtilsDir(), "harfbuzz", "perf_reference", "texts")
		ents, _ := os.ReadDir(dir)
		for _, e := range ents {
			b, err := os.ReadFile(filepath.Join(dir, e.Name()))
			if err != nil {
				continue
			}
			var ws [][]rune
			for _, w := range strings.Fields(string(b)) {
				ws = append(ws, []rune(w))
				if len(ws) >= 6000 {
					break
				}
			}
			perfTexts[e.Name()] = ws
		}
	})
	return perfTexts
}

// PerfText returns 1..4 consecutive words of one of the sample paragraphs
// (arabic selects the Persian files).
func PerfText(r *gen.RNG, arabic bool) []rune {
	m := perfWords()
	var names []string
	for n := range m {
		if strings.HasPrefix(n, "fa-") == arabic {
			names = append(names, n)
		}
	}
	if len(names) == 0 {
		return nil
	}
	sort.Strings(names)
	ws := m[gen.Pick(r, names)]
	if len(ws) == 0 {
		return nil
	}
	i := r.Intn(len(ws))
	n := r.Range(1, 4)
	var out []rune
	for k := 0; k < n && i+k < len(ws); k++ {
		if k > 0 {
			out = append(out, ' ')
		}
		out = append(out, ws[i+k]...)
	}
	if len(out) > 40 {
		out = out[:40]
	}
	return out
}

// ---------------------------------------------------------------------------
// (v) upstream trigger strings per font and mutations of them

var (
	trigOnce sync.Once
	trigBy   map[string][]int // "font#index" -> indices into UpstreamTests()
)

// Triggers returns the upstream tests that use the face.
func Triggers(ref string) []int {
	trigOnce.Do(func() {
		trigBy = map[string][]int{}
		ts := UpstreamTests()
		for i := range ts {
			k := ts[i].Case.Font + "#" + itoa(ts[i].Case.Index)
			trigBy[k] = append(trigBy[k], i)
		}
	})
	return trigBy[ref]
}

// MutateTrigger derives a text from upstream trigger strings of the face:
// substring, concatenation of two, adjacent swap, one rune replaced by a cmap
// neighbour, a mark / joiner / space inserted.
func MutateTrigger(r *gen.RNG, fi *FontInfo, trig []int) []rune {
	ts := UpstreamTests()
	base := append([]rune(nil), ts[gen.Pick(r, trig)].Case.Text...)
	if len(base) == 0 {
		return []rune{'a'}
	}
	if len(base) > 48 {
		s := r.Intn(len(base) - 48)
		base = base[s : s+48]
	}
	for m := r.Range(1, 2); m > 0; m-- {
		switch r.Intn(7) {
		case 0: // substring
			if len(base) > 1 {
				i := r.Intn(len(base))
				j := i + 1 + r.Intn(len(base)-i)
				base = base[i:j]
			}
		case 1: // concatenation
			o := ts[gen.Pick(r, trig)].Case.Text
			if len(o) > 24 {
				o = o[:24]
			}
			base = append(base, o...)
		case 2: // adjacent swap
			if len(base) > 1 {
				i := r.Intn(len(base) - 1)
				base[i], base[i+1] = base[i+1], base[i]
			}
		case 3: // cmap neighbour
			if len(fi.Runes) > 0 {
				i := r.Intn(len(base))
				k := sort.Search(len(fi.Runes), func(k int) bool { return fi.Runes[k] >= base[i] })
				k += r.Range(-3, 3)
				if k < 0 {
					k = 0
				}
				if k >= len(fi.Runes) {
					k = len(fi.Runes) - 1
				}
				base[i] = fi.Runes[k]
			}
		case 4: // insert mark / joiner / space
			i := r.Intn(len(base) + 1)
			var x rune
			switch r.Intn(4) {
			case 0:
				x = gen.Pick(r, []rune{0x200D, 0x200C})
			case 1:
				x = gen.Pick(r, spaces)
			case 2:
				x = gen.Pick(r, ignorables)
			default:
				x = gen.Pick(r, []rune{0x301, 0x308, 0x323, 0x64E, 0x651, 0x93C, 0x94D})
			}
			base = append(base[:i], append([]rune{x}, base[i:]...)...)
		case 5: // duplicate a rune
			i := r.Intn(len(base))
			base = append(base[:i], append([]rune{base[i]}, base[i:]...)...)
		default: // delete a rune
			if len(base) > 1 {
				i := r.Intn(len(base))
				base = append(base[:i], base[i+1:]...)
			}
		}
	}
	return base
}
