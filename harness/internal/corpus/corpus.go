// Package corpus gives access to the font corpus: the files of
// typesetting-utils (read from the module directory on disk, not embedded, to
// keep binaries small), the fonts under /repo/font/testdata and DejaVu.
package corpus

import (
	"bytes"
	"fmt"
	"os"
	"os/exec"
	"path/filepath"
	"sort"
	"strings"
	"sync"

	"github.com/go-text/typesetting/font"
	ot "github.com/go-text/typesetting/font/opentype"
)

const utilsVersion = "v0.0.0-20241103174707-87a29e9e6066"

var (
	utilsOnce sync.Once
	utilsDir  string
)

// UtilsDir locates the typesetting-utils module directory.
func UtilsDir() string {
	utilsOnce.Do(func() {
		if d := os.Getenv("VERIF_UTILS_DIR"); d != "" {
			utilsDir = d
			return
		}
		cands := []string{}
		if mc := os.Getenv("GOMODCACHE"); mc != "" {
			cands = append(cands, mc)
		}
		if gp := os.Getenv("GOPATH"); gp != "" {
			cands = append(cands, filepath.Join(gp, "pkg/mod"))
		}
		home, _ := os.UserHomeDir()
		cands = append(cands, filepath.Join(home, "go/pkg/mod"), "/root/go/pkg/mod")
		for _, c := range cands {
			d := filepath.Join(c, "github.com/go-text/typesetting-utils@"+utilsVersion)
			if st, err := os.Stat(d); err == nil && st.IsDir() {
				utilsDir = d
				return
			}
		}
		out, err := exec.Command("go", "env", "GOMODCACHE").Output()
		if err == nil {
			d := filepath.Join(strings.TrimSpace(string(out)), "github.com/go-text/typesetting-utils@"+utilsVersion)
			if st, err := os.Stat(d); err == nil && st.IsDir() {
				utilsDir = d
				return
			}
		}
		fmt.Fprintln(os.Stderr, "corpus: typesetting-utils module directory not found")
		os.Exit(3)
	})
	return utilsDir
}

// RepoDir is the go-text/typesetting checkout under verification.
func RepoDir() string {
	if d := os.Getenv("VERIF_REPO"); d != "" {
		return d
	}
	return "/repo"
}

// File is one font file of the corpus.
type File struct {
	ID  string // stable id: "hb/fonts/x.ttf", "ot/common/y.ttf", "repo/Roboto.ttf", "sys/DejaVuSans.ttf"
	Abs string

	once  sync.Once
	data  []byte
	fonts []*font.Font
	err   error
	fonce sync.Once
}

var fontExt = map[string]bool{".ttf": true, ".otf": true, ".ttc": true, ".otb": true, ".dfont": true, ".woff": true}

var (
	filesOnce sync.Once
	files     []*File
)

func walk(root, prefix string, out *[]*File) {
	filepath.Walk(root, func(p string, info os.FileInfo, err error) error {
		if err != nil || info.IsDir() {
			return nil
		}
		if !fontExt[strings.ToLower(filepath.Ext(p))] {
			return nil
		}
		rel, _ := filepath.Rel(root, p)
		*out = append(*out, &File{ID: prefix + filepath.ToSlash(rel), Abs: p})
		return nil
	})
}

// Files returns every font file of the corpus in a deterministic order.
func Files() []*File {
	filesOnce.Do(func() {
		u := UtilsDir()
		walk(filepath.Join(u, "harfbuzz"), "hb/", &files)
		walk(filepath.Join(u, "opentype"), "ot/", &files)
		walk(filepath.Join(RepoDir(), "font/testdata"), "repo/", &files)
		walk("/usr/share/fonts/truetype/dejavu", "sys/", &files)
		sort.Slice(files, func(i, j int) bool { return files[i].ID < files[j].ID })
	})
	return files
}

// ByID finds a corpus file (or a registered in-memory one).
func ByID(id string) *File {
	memMu.Lock()
	m := mem[id]
	memMu.Unlock()
	if m != nil {
		return m
	}
	for _, f := range Files() {
		if f.ID == id {
			return f
		}
	}
	return nil
}

var (
	memMu sync.Mutex
	mem   = map[string]*File{}
)

// RegisterMem makes a harness-built font file addressable like a corpus file (ByID,
// ParseRef); it is not part of Files() / Faces(). Registering an id twice returns the
// first file.
func RegisterMem(id string, data []byte) *File {
	memMu.Lock()
	defer memMu.Unlock()
	if f := mem[id]; f != nil {
		return f
	}
	f := &File{ID: id}
	f.once.Do(func() { f.data = data })
	mem[id] = f
	return f
}

// Bytes returns the file content (cached).
func (f *File) Bytes() []byte {
	f.once.Do(func() {
		f.data, _ = os.ReadFile(f.Abs)
	})
	return f.data
}

// Fonts parses the file (all faces of a collection); cached. A panic inside
// the parser is converted into an error (C09 is the property about that).
func (f *File) Fonts() ([]*font.Font, error) {
	f.fonce.Do(func() {
		defer func() {
			if e := recover(); e != nil {
				f.err = fmt.Errorf("panic while loading: %v", e)
			}
		}()
		lds, err := ot.NewLoaders(bytes.NewReader(f.Bytes()))
		if err != nil {
			f.err = err
			return
		}
		for _, ld := range lds {
			ft, err := font.NewFont(ld)
			if err != nil {
				f.err = err
				f.fonts = nil
				return
			}
			f.fonts = append(f.fonts, ft)
		}
	})
	return f.fonts, f.err
}

// FaceRef names one face of the corpus.
type FaceRef struct {
	File  *File
	Index int
}

func (fr FaceRef) String() string { return fmt.Sprintf("%s#%d", fr.File.ID, fr.Index) }

// Font returns the parsed font of the reference.
func (fr FaceRef) Font() *font.Font {
	fs, _ := fr.File.Fonts()
	return fs[fr.Index]
}

var (
	facesOnce sync.Once
	faces     []FaceRef
)

// Faces lists every face the loader accepts, in deterministic order. Loading
// is done once, in parallel.
func Faces() []FaceRef {
	facesOnce.Do(func() {
		fl := Files()
		var wg sync.WaitGroup
		sem := make(chan struct{}, 16)
		for _, f := range fl {
			wg.Add(1)
			sem <- struct{}{}
			go func(f *File) {
				defer wg.Done()
				defer func() { <-sem }()
				f.Fonts()
			}(f)
		}
		wg.Wait()
		for _, f := range fl {
			fs, err := f.Fonts()
			if err != nil {
				continue
			}
			for i := range fs {
				faces = append(faces, FaceRef{File: f, Index: i})
			}
		}
	})
	return faces
}

// ParseRef parses "id#index".
func ParseRef(s string) (FaceRef, bool) {
	k := strings.LastIndex(s, "#")
	if k < 0 {
		return FaceRef{}, false
	}
	f := ByID(s[:k])
	if f == nil {
		return FaceRef{}, false
	}
	var idx int
	fmt.Sscanf(s[k+1:], "%d", &idx)
	fs, err := f.Fonts()
	if err != nil || idx >= len(fs) {
		return FaceRef{}, false
	}
	return FaceRef{File: f, Index: idx}, true
}
