package hbref

import (
	"os"
	"testing"
)

func TestSmoke(t *testing.T) {
	if v := Version(); v != "6.0.0" {
		t.Fatalf("version %s", v)
	}
	data, err := os.ReadFile("/usr/share/fonts/truetype/dejavu/DejaVuSans.ttf")
	if err != nil {
		t.Skip(err)
	}
	bl := NewBlob(data)
	defer bl.Destroy()
	fc := bl.NewFace(0)
	defer fc.Destroy()
	ft := fc.NewFont()
	defer ft.Destroy()
	b := NewBuffer()
	defer b.Destroy()
	res := b.Shape(ft, &Input{Text: []rune("AVfi"), ItemLength: -1, Direction: DirLTR, Script: Tag("Latn"), Flags: FlagBOT | FlagEOT})
	if !res.OK || len(res.Glyphs) == 0 {
		t.Fatal("shape failed")
	}
	s := b.Serialize(ft, 0)
	t.Log(s, res.Glyphs)
	if s == "" || s[0] != '[' {
		t.Fatalf("serialize %q", s)
	}
	u := DumpUnicode(0x40, 0x50)
	if u.GC[1] != 9 {
		t.Fatalf("gc %v", u.GC)
	}
}
