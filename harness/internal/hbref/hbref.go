// Package hbref is a cgo binding to the C HarfBuzz shared library installed in
// the sandbox (/lib/x86_64-linux-gnu/libharfbuzz.so.0, version 6.0.0). No
// headers are installed, so the prototypes of the stable C ABI are written by
// hand in the preamble below (types and layouts from hb-common.h, hb-buffer.h,
// hb-font.h, hb-ot-var.h, hb-unicode.h of the 6.0.0 release).
//
// The library is the live reference for C05/C18 (and C10). It only ever
// receives UNMODIFIED corpus font bytes.
//
// Threading: a Blob (C copy of the font bytes) may be shared by any number of
// goroutines; Face, Font and Buffer objects are meant to be owned by one
// goroutine. Every object must be released with Destroy.
package hbref

/*
#cgo LDFLAGS: -l:libharfbuzz.so.0
#include <stdint.h>
#include <stdlib.h>
#include <string.h>

typedef int hb_bool_t;
typedef uint32_t hb_codepoint_t;
typedef int32_t hb_position_t;
typedef uint32_t hb_mask_t;
typedef uint32_t hb_tag_t;
typedef union _hb_var_int_t { uint32_t u32; int32_t i32; uint16_t u16[2]; int16_t i16[2]; uint8_t u8[4]; int8_t i8[4]; } hb_var_int_t;

typedef struct hb_blob_t hb_blob_t;
typedef struct hb_face_t hb_face_t;
typedef struct hb_font_t hb_font_t;
typedef struct hb_buffer_t hb_buffer_t;
typedef struct hb_unicode_funcs_t hb_unicode_funcs_t;
typedef const struct hb_language_impl_t *hb_language_t;
typedef void (*hb_destroy_func_t) (void *user_data);

typedef struct hb_glyph_info_t {
  hb_codepoint_t codepoint;
  hb_mask_t      mask;
  uint32_t       cluster;
  hb_var_int_t   var1;
  hb_var_int_t   var2;
} hb_glyph_info_t;

typedef struct hb_glyph_position_t {
  hb_position_t  x_advance;
  hb_position_t  y_advance;
  hb_position_t  x_offset;
  hb_position_t  y_offset;
  hb_var_int_t   var;
} hb_glyph_position_t;

typedef struct hb_feature_t {
  hb_tag_t      tag;
  uint32_t      value;
  unsigned int  start;
  unsigned int  end;
} hb_feature_t;

typedef struct hb_variation_t {
  hb_tag_t tag;
  float    value;
} hb_variation_t;

typedef struct hb_glyph_extents_t {
  hb_position_t x_bearing;
  hb_position_t y_bearing;
  hb_position_t width;
  hb_position_t height;
} hb_glyph_extents_t;

typedef struct hb_ot_var_axis_info_t {
  unsigned int axis_index;
  hb_tag_t     tag;
  unsigned int name_id;
  unsigned int flags;
  float        min_value;
  float        default_value;
  float        max_value;
  unsigned int reserved;
} hb_ot_var_axis_info_t;

// hb-common.h
extern const char *hb_version_string (void);
extern hb_language_t hb_language_from_string (const char *str, int len);
extern const char *hb_language_to_string (hb_language_t language);

// hb-blob.h (memory mode 1 = HB_MEMORY_MODE_READONLY)
extern hb_blob_t *hb_blob_create (const char *data, unsigned int length, int mode, void *user_data, hb_destroy_func_t destroy);
extern void hb_blob_destroy (hb_blob_t *blob);
extern unsigned int hb_blob_get_length (hb_blob_t *blob);

// hb-face.h
extern unsigned int hb_face_count (hb_blob_t *blob);
extern hb_face_t *hb_face_create (hb_blob_t *blob, unsigned int index);
extern void hb_face_destroy (hb_face_t *face);
extern unsigned int hb_face_get_upem (const hb_face_t *face);
extern unsigned int hb_face_get_glyph_count (const hb_face_t *face);
extern hb_blob_t *hb_face_reference_table (const hb_face_t *face, hb_tag_t tag);

// hb-font.h
extern hb_font_t *hb_font_create (hb_face_t *face);
extern void hb_font_destroy (hb_font_t *font);
extern void hb_font_set_scale (hb_font_t *font, int x_scale, int y_scale);
extern void hb_font_set_ppem (hb_font_t *font, unsigned int x_ppem, unsigned int y_ppem);
extern void hb_font_set_ptem (hb_font_t *font, float ptem);
extern void hb_font_set_variations (hb_font_t *font, const hb_variation_t *variations, unsigned int variations_length);
extern hb_bool_t hb_font_get_glyph_extents (hb_font_t *font, hb_codepoint_t glyph, hb_glyph_extents_t *extents);
extern hb_position_t hb_font_get_glyph_h_advance (hb_font_t *font, hb_codepoint_t glyph);
extern hb_position_t hb_font_get_glyph_v_advance (hb_font_t *font, hb_codepoint_t glyph);
extern hb_bool_t hb_font_get_nominal_glyph (hb_font_t *font, hb_codepoint_t unicode, hb_codepoint_t *glyph);
extern hb_bool_t hb_font_get_glyph_name (hb_font_t *font, hb_codepoint_t glyph, char *name, unsigned int size);

// hb-buffer.h
extern hb_buffer_t *hb_buffer_create (void);
extern void hb_buffer_destroy (hb_buffer_t *buffer);
extern void hb_buffer_reset (hb_buffer_t *buffer);
extern void hb_buffer_clear_contents (hb_buffer_t *buffer);
extern void hb_buffer_add (hb_buffer_t *buffer, hb_codepoint_t codepoint, unsigned int cluster);
extern void hb_buffer_add_codepoints (hb_buffer_t *buffer, const hb_codepoint_t *text, int text_length, unsigned int item_offset, int item_length);
extern void hb_buffer_set_content_type (hb_buffer_t *buffer, int content_type);
extern void hb_buffer_set_direction (hb_buffer_t *buffer, int direction);
extern int hb_buffer_get_direction (const hb_buffer_t *buffer);
extern void hb_buffer_set_script (hb_buffer_t *buffer, uint32_t script);
extern uint32_t hb_buffer_get_script (const hb_buffer_t *buffer);
extern void hb_buffer_set_language (hb_buffer_t *buffer, hb_language_t language);
extern void hb_buffer_set_flags (hb_buffer_t *buffer, int flags);
extern void hb_buffer_set_cluster_level (hb_buffer_t *buffer, int cluster_level);
extern void hb_buffer_set_invisible_glyph (hb_buffer_t *buffer, hb_codepoint_t invisible);
extern void hb_buffer_set_not_found_glyph (hb_buffer_t *buffer, hb_codepoint_t not_found);
extern void hb_buffer_guess_segment_properties (hb_buffer_t *buffer);
extern unsigned int hb_buffer_get_length (const hb_buffer_t *buffer);
extern hb_glyph_info_t *hb_buffer_get_glyph_infos (hb_buffer_t *buffer, unsigned int *length);
extern hb_glyph_position_t *hb_buffer_get_glyph_positions (hb_buffer_t *buffer, unsigned int *length);
extern hb_bool_t hb_buffer_allocation_successful (hb_buffer_t *buffer);
extern unsigned int hb_buffer_serialize_glyphs (hb_buffer_t *buffer, unsigned int start, unsigned int end,
	char *buf, unsigned int buf_size, unsigned int *buf_consumed, hb_font_t *font, uint32_t format, int flags);

// hb-shape.h
extern hb_bool_t hb_shape_full (hb_font_t *font, hb_buffer_t *buffer, const hb_feature_t *features, unsigned int num_features, const char * const *shaper_list);

// hb-ot-var.h / hb-ot-layout.h / hb-aat-layout.h
extern hb_bool_t hb_ot_var_has_data (hb_face_t *face);
extern unsigned int hb_ot_var_get_axis_count (hb_face_t *face);
extern unsigned int hb_ot_var_get_axis_infos (hb_face_t *face, unsigned int start_offset, unsigned int *axes_count, hb_ot_var_axis_info_t *axes_array);
extern hb_bool_t hb_ot_layout_has_substitution (hb_face_t *face);
extern hb_bool_t hb_ot_layout_has_positioning (hb_face_t *face);
extern hb_bool_t hb_aat_layout_has_substitution (hb_face_t *face);
extern hb_bool_t hb_aat_layout_has_positioning (hb_face_t *face);
extern hb_bool_t hb_aat_layout_has_tracking (hb_face_t *face);

// hb-unicode.h
extern hb_unicode_funcs_t *hb_unicode_funcs_get_default (void);
extern unsigned int hb_unicode_combining_class (hb_unicode_funcs_t *ufuncs, hb_codepoint_t unicode);
extern unsigned int hb_unicode_general_category (hb_unicode_funcs_t *ufuncs, hb_codepoint_t unicode);
extern hb_codepoint_t hb_unicode_mirroring (hb_unicode_funcs_t *ufuncs, hb_codepoint_t unicode);
extern uint32_t hb_unicode_script (hb_unicode_funcs_t *ufuncs, hb_codepoint_t unicode);
extern hb_bool_t hb_unicode_compose (hb_unicode_funcs_t *ufuncs, hb_codepoint_t a, hb_codepoint_t b, hb_codepoint_t *ab);
extern hb_bool_t hb_unicode_decompose (hb_unicode_funcs_t *ufuncs, hb_codepoint_t ab, hb_codepoint_t *a, hb_codepoint_t *b);

static const char *const verif_ot_shapers[] = { "ot", NULL };

static hb_bool_t verif_shape_ot (hb_font_t *font, hb_buffer_t *buffer, const hb_feature_t *features, unsigned int n) {
	return hb_shape_full (font, buffer, features, n, verif_ot_shapers);
}

// one pass over all code points for the Unicode-skew table: out[5*u+0..4] =
// general category, combining class, script, mirroring, and decomposition
// packed as (a, b) in two further arrays.
static void verif_unicode_dump (uint32_t lo, uint32_t hi, uint8_t *gc, uint8_t *ccc, uint32_t *script, uint32_t *mirror, uint32_t *deca, uint32_t *decb) {
	hb_unicode_funcs_t *uf = hb_unicode_funcs_get_default ();
	for (uint32_t u = lo; u < hi; u++) {
		uint32_t i = u - lo;
		gc[i] = (uint8_t) hb_unicode_general_category (uf, u);
		ccc[i] = (uint8_t) hb_unicode_combining_class (uf, u);
		script[i] = hb_unicode_script (uf, u);
		mirror[i] = hb_unicode_mirroring (uf, u);
		hb_codepoint_t a = 0, b = 0;
		if (hb_unicode_decompose (uf, u, &a, &b)) { deca[i] = a; decb[i] = b; }
		else { deca[i] = 0xFFFFFFFFu; decb[i] = 0; }
	}
}

static void verif_copy_glyphs (hb_buffer_t *buffer, unsigned int n, uint32_t *out) {
	unsigned int li = 0, lp = 0;
	hb_glyph_info_t *info = hb_buffer_get_glyph_infos (buffer, &li);
	hb_glyph_position_t *pos = hb_buffer_get_glyph_positions (buffer, &lp);
	for (unsigned int i = 0; i < n && i < li; i++) {
		out[7*i+0] = info[i].codepoint;
		out[7*i+1] = info[i].cluster;
		out[7*i+2] = info[i].mask;
		if (i < lp) {
			out[7*i+3] = (uint32_t) pos[i].x_advance;
			out[7*i+4] = (uint32_t) pos[i].y_advance;
			out[7*i+5] = (uint32_t) pos[i].x_offset;
			out[7*i+6] = (uint32_t) pos[i].y_offset;
		} else {
			out[7*i+3] = out[7*i+4] = out[7*i+5] = out[7*i+6] = 0;
		}
	}
}
*/
import "C"

import "unsafe"

// Direction values (hb_direction_t); identical to the Go port's constants.
const (
	DirInvalid = 0
	DirLTR     = 4
	DirRTL     = 5
	DirTTB     = 6
	DirBTT     = 7
)

// Buffer flags (hb_buffer_flags_t of 6.0.0). NOTE: not the same numbering as
// the Go port's ShappingOptions (C has VERIFY=0x20 in between).
const (
	FlagBOT                        = 0x1
	FlagEOT                        = 0x2
	FlagPreserveDefaultIgnorables  = 0x4
	FlagRemoveDefaultIgnorables    = 0x8
	FlagDoNotInsertDottedCircle    = 0x10
	FlagVerify                     = 0x20
	FlagProduceUnsafeToConcat      = 0x40
	FlagProduceSafeToInsertTatweel = 0x80
)

// Glyph flags found in Glyph.Mask.
const (
	GlyphFlagUnsafeToBreak       = 0x1
	GlyphFlagUnsafeToConcat      = 0x2
	GlyphFlagSafeToInsertTatweel = 0x4
	GlyphFlagDefined             = 0x7
)

// Serialize flags (hb_buffer_serialize_flags_t).
const (
	SerializeNoClusters   = 0x1
	SerializeNoPositions  = 0x2
	SerializeNoGlyphNames = 0x4
	SerializeGlyphExtents = 0x8
	SerializeGlyphFlags   = 0x10
	SerializeNoAdvances   = 0x20
)

// Tag builds an OpenType/ISO tag from up to four bytes.
func Tag(s string) uint32 {
	var b [4]byte
	for i := range b {
		b[i] = ' '
		if i < len(s) {
			b[i] = s[i]
		}
	}
	return uint32(b[0])<<24 | uint32(b[1])<<16 | uint32(b[2])<<8 | uint32(b[3])
}

// Version returns hb_version_string().
func Version() string { return C.GoString(C.hb_version_string()) }

// Blob is an immutable C copy of font bytes.
type Blob struct {
	p    *C.hb_blob_t
	data unsafe.Pointer
	n    int
}

// NewBlob copies data to C memory and wraps it in a read-only hb_blob_t.
func NewBlob(data []byte) *Blob {
	b := &Blob{n: len(data)}
	if len(data) > 0 {
		b.data = C.CBytes(data)
	} else {
		b.data = C.malloc(1)
	}
	b.p = C.hb_blob_create((*C.char)(b.data), C.uint(len(data)), 1 /* READONLY */, nil, nil)
	return b
}

// FaceCount returns hb_face_count.
func (b *Blob) FaceCount() int { return int(C.hb_face_count(b.p)) }

// Destroy releases the blob and the C copy of the bytes. No Face created from
// it may be used afterwards.
func (b *Blob) Destroy() {
	if b.p != nil {
		C.hb_blob_destroy(b.p)
		C.free(b.data)
		b.p, b.data = nil, nil
	}
}

// Face wraps hb_face_t.
type Face struct {
	p    *C.hb_face_t
	blob *Blob
}

// NewFace creates face `index` of the blob.
func (b *Blob) NewFace(index int) *Face {
	return &Face{p: C.hb_face_create(b.p, C.uint(index)), blob: b}
}

func (f *Face) Destroy() {
	if f.p != nil {
		C.hb_face_destroy(f.p)
		f.p = nil
	}
}

func (f *Face) Upem() int       { return int(C.hb_face_get_upem(f.p)) }
func (f *Face) GlyphCount() int { return int(C.hb_face_get_glyph_count(f.p)) }

// HasTable reports whether the face has a non-empty table with this tag.
func (f *Face) HasTable(tag uint32) bool {
	bl := C.hb_face_reference_table(f.p, C.hb_tag_t(tag))
	n := C.hb_blob_get_length(bl)
	C.hb_blob_destroy(bl)
	return n > 0
}

func (f *Face) HasGSUB() bool     { return C.hb_ot_layout_has_substitution(f.p) != 0 }
func (f *Face) HasGPOS() bool     { return C.hb_ot_layout_has_positioning(f.p) != 0 }
func (f *Face) HasMorx() bool     { return C.hb_aat_layout_has_substitution(f.p) != 0 }
func (f *Face) HasKerx() bool     { return C.hb_aat_layout_has_positioning(f.p) != 0 }
func (f *Face) HasTrak() bool     { return C.hb_aat_layout_has_tracking(f.p) != 0 }
func (f *Face) HasVarData() bool  { return C.hb_ot_var_has_data(f.p) != 0 }
func (f *Face) VarAxisCount() int { return int(C.hb_ot_var_get_axis_count(f.p)) }

// AxisInfo mirrors hb_ot_var_axis_info_t.
type AxisInfo struct {
	Index         int
	Tag           uint32
	Flags         uint32
	Min, Def, Max float32
}

// VarAxes returns hb_ot_var_get_axis_infos.
func (f *Face) VarAxes() []AxisInfo {
	n := C.hb_ot_var_get_axis_count(f.p)
	if n == 0 {
		return nil
	}
	arr := make([]C.hb_ot_var_axis_info_t, int(n))
	cnt := n
	C.hb_ot_var_get_axis_infos(f.p, 0, &cnt, &arr[0])
	out := make([]AxisInfo, int(cnt))
	for i := range out {
		a := arr[i]
		out[i] = AxisInfo{Index: int(a.axis_index), Tag: uint32(a.tag), Flags: uint32(a.flags),
			Min: float32(a.min_value), Def: float32(a.default_value), Max: float32(a.max_value)}
	}
	return out
}

// Variation mirrors hb_variation_t.
type Variation struct {
	Tag   uint32
	Value float32
}

// Font wraps hb_font_t (ot font funcs, the default).
type Font struct {
	p    *C.hb_font_t
	face *Face
}

// NewFont creates a font; its scale defaults to the face's upem.
func (f *Face) NewFont() *Font { return &Font{p: C.hb_font_create(f.p), face: f} }

func (f *Font) Destroy() {
	if f.p != nil {
		C.hb_font_destroy(f.p)
		f.p = nil
	}
}

func (f *Font) SetScale(x, y int32)  { C.hb_font_set_scale(f.p, C.int(x), C.int(y)) }
func (f *Font) SetPpem(x, y uint16)  { C.hb_font_set_ppem(f.p, C.uint(x), C.uint(y)) }
func (f *Font) SetPtem(ptem float32) { C.hb_font_set_ptem(f.p, C.float(ptem)) }
func (f *Font) Face() *Face          { return f.face }
func (f *Font) HAdvance(g uint32) int32 {
	return int32(C.hb_font_get_glyph_h_advance(f.p, C.hb_codepoint_t(g)))
}
func (f *Font) VAdvance(g uint32) int32 {
	return int32(C.hb_font_get_glyph_v_advance(f.p, C.hb_codepoint_t(g)))
}

// SetVariations calls hb_font_set_variations (an empty list resets to the
// default instance).
func (f *Font) SetVariations(vs []Variation) {
	if len(vs) == 0 {
		C.hb_font_set_variations(f.p, nil, 0)
		return
	}
	arr := make([]C.hb_variation_t, len(vs))
	for i, v := range vs {
		arr[i].tag = C.hb_tag_t(v.Tag)
		arr[i].value = C.float(v.Value)
	}
	C.hb_font_set_variations(f.p, &arr[0], C.uint(len(arr)))
}

// Extents mirrors hb_glyph_extents_t.
type Extents struct{ XBearing, YBearing, Width, Height int32 }

func (f *Font) GlyphExtents(g uint32) (Extents, bool) {
	var e C.hb_glyph_extents_t
	ok := C.hb_font_get_glyph_extents(f.p, C.hb_codepoint_t(g), &e)
	return Extents{int32(e.x_bearing), int32(e.y_bearing), int32(e.width), int32(e.height)}, ok != 0
}

func (f *Font) NominalGlyph(u rune) (uint32, bool) {
	var g C.hb_codepoint_t
	ok := C.hb_font_get_nominal_glyph(f.p, C.hb_codepoint_t(uint32(u)), &g)
	return uint32(g), ok != 0
}

func (f *Font) GlyphName(g uint32) string {
	var buf [128]C.char
	C.hb_font_get_glyph_name(f.p, C.hb_codepoint_t(g), &buf[0], 128)
	return C.GoString(&buf[0])
}

// Feature mirrors hb_feature_t. End = ^uint32(0) means "to the end".
type Feature struct {
	Tag, Value, Start, End uint32
}

const FeatureGlobalEnd = ^uint32(0)

// Input is one shaping request.
type Input struct {
	Text                   []rune // whole text (context comes from it)
	ItemOffset, ItemLength int    // ItemLength < 0: to the end
	// optional explicit context (hb-shape --unicodes-before/after): added with
	// zero-length items before / after the text, as hb-shape does.
	Before, After []rune
	Direction     int    // DirInvalid = guess
	Script        uint32 // 0 = guess
	Language      string // "" = unset (or guessed from the C locale when Guess is set)
	Guess         bool   // call hb_buffer_guess_segment_properties
	Flags         int    // C numbering
	ClusterLevel  int
	Invisible     uint32
	NotFound      uint32
	Features      []Feature
}

// Glyph is one output glyph.
type Glyph struct {
	GID, Cluster, Mask uint32
	XAdv, YAdv         int32
	XOff, YOff         int32
}

// Buffer wraps a reusable hb_buffer_t.
type Buffer struct{ p *C.hb_buffer_t }

func NewBuffer() *Buffer { return &Buffer{p: C.hb_buffer_create()} }

func (b *Buffer) Destroy() {
	if b.p != nil {
		C.hb_buffer_destroy(b.p)
		b.p = nil
	}
}

func runesPtr(r []rune) *C.hb_codepoint_t {
	if len(r) == 0 {
		return nil
	}
	return (*C.hb_codepoint_t)(unsafe.Pointer(&r[0]))
}

// Result of Shape.
type Result struct {
	Glyphs    []Glyph
	OK        bool // hb_shape_full returned true and the buffer allocation was successful
	Direction int  // resolved direction
	Script    uint32
}

// Shape resets the buffer, fills it from in and runs hb_shape_full with the
// shaper list {"ot"}.
func (b *Buffer) Shape(font *Font, in *Input) Result {
	C.hb_buffer_reset(b.p)
	if len(in.Before) > 0 {
		C.hb_buffer_add_codepoints(b.p, runesPtr(in.Before), C.int(len(in.Before)), C.uint(len(in.Before)), 0)
	}
	il := in.ItemLength
	if il < 0 {
		il = len(in.Text) - in.ItemOffset
	}
	if len(in.Text) > 0 {
		C.hb_buffer_add_codepoints(b.p, runesPtr(in.Text), C.int(len(in.Text)), C.uint(in.ItemOffset), C.int(il))
	}
	if len(in.After) > 0 {
		C.hb_buffer_add_codepoints(b.p, runesPtr(in.After), C.int(len(in.After)), 0, 0)
	}
	C.hb_buffer_set_content_type(b.p, 1 /* UNICODE; needed when the item is empty */)
	if in.Direction != DirInvalid {
		C.hb_buffer_set_direction(b.p, C.int(in.Direction))
	}
	if in.Script != 0 {
		C.hb_buffer_set_script(b.p, C.uint32_t(in.Script))
	}
	if in.Language != "" {
		cs := C.CString(in.Language)
		C.hb_buffer_set_language(b.p, C.hb_language_from_string(cs, -1))
		C.free(unsafe.Pointer(cs))
	}
	C.hb_buffer_set_flags(b.p, C.int(in.Flags))
	C.hb_buffer_set_cluster_level(b.p, C.int(in.ClusterLevel))
	if in.Invisible != 0 {
		C.hb_buffer_set_invisible_glyph(b.p, C.hb_codepoint_t(in.Invisible))
	}
	if in.NotFound != 0 {
		C.hb_buffer_set_not_found_glyph(b.p, C.hb_codepoint_t(in.NotFound))
	}
	if in.Guess {
		C.hb_buffer_guess_segment_properties(b.p)
	}
	var res Result
	res.Direction = int(C.hb_buffer_get_direction(b.p))
	res.Script = uint32(C.hb_buffer_get_script(b.p))
	var fp *C.hb_feature_t
	var feats []C.hb_feature_t
	if len(in.Features) > 0 {
		feats = make([]C.hb_feature_t, len(in.Features))
		for i, f := range in.Features {
			feats[i].tag = C.hb_tag_t(f.Tag)
			feats[i].value = C.uint32_t(f.Value)
			feats[i].start = C.uint(f.Start)
			feats[i].end = C.uint(f.End)
		}
		fp = &feats[0]
	}
	ok := C.verif_shape_ot(font.p, b.p, fp, C.uint(len(feats)))
	res.OK = ok != 0 && C.hb_buffer_allocation_successful(b.p) != 0
	n := int(C.hb_buffer_get_length(b.p))
	if n > 0 {
		raw := make([]uint32, 7*n)
		C.verif_copy_glyphs(b.p, C.uint(n), (*C.uint32_t)(unsafe.Pointer(&raw[0])))
		res.Glyphs = make([]Glyph, n)
		for i := range res.Glyphs {
			r := raw[7*i:]
			res.Glyphs[i] = Glyph{GID: r[0], Cluster: r[1], Mask: r[2],
				XAdv: int32(r[3]), YAdv: int32(r[4]), XOff: int32(r[5]), YOff: int32(r[6])}
		}
	}
	return res
}

// Serialize returns hb_buffer_serialize_glyphs of the whole (shaped) buffer in
// the TEXT format, i.e. the string hb-shape prints.
func (b *Buffer) Serialize(font *Font, flags int) string {
	n := uint(C.hb_buffer_get_length(b.p))
	if n == 0 {
		return ""
	}
	const text = 'T'<<24 | 'E'<<16 | 'X'<<8 | 'T'
	buf := (*C.char)(C.malloc(4096))
	defer C.free(unsafe.Pointer(buf))
	var out []byte
	start := uint(0)
	for start < n {
		var consumed C.uint
		k := uint(C.hb_buffer_serialize_glyphs(b.p, C.uint(start), C.uint(n), buf, 4096, &consumed, font.p, text, C.int(flags)))
		if k == 0 {
			break
		}
		out = append(out, C.GoBytes(unsafe.Pointer(buf), C.int(consumed))...)
		start += k
	}
	return string(out)
}

// UnicodeTable is a dump of the default hb_unicode_funcs over a code point range.
type UnicodeTable struct {
	Lo, Hi uint32
	GC     []uint8 // hb_unicode_general_category_t (same order as the Go port's enum)
	CCC    []uint8
	Script []uint32
	Mirror []uint32
	DecA   []uint32 // 0xFFFFFFFF when hb_unicode_decompose returns false
	DecB   []uint32
}

// DumpUnicode evaluates the five hb_unicode_* functions over [lo,hi).
func DumpUnicode(lo, hi uint32) *UnicodeTable {
	n := int(hi - lo)
	t := &UnicodeTable{Lo: lo, Hi: hi, GC: make([]uint8, n), CCC: make([]uint8, n), Script: make([]uint32, n),
		Mirror: make([]uint32, n), DecA: make([]uint32, n), DecB: make([]uint32, n)}
	if n == 0 {
		return t
	}
	C.verif_unicode_dump(C.uint32_t(lo), C.uint32_t(hi),
		(*C.uint8_t)(unsafe.Pointer(&t.GC[0])), (*C.uint8_t)(unsafe.Pointer(&t.CCC[0])),
		(*C.uint32_t)(unsafe.Pointer(&t.Script[0])), (*C.uint32_t)(unsafe.Pointer(&t.Mirror[0])),
		(*C.uint32_t)(unsafe.Pointer(&t.DecA[0])), (*C.uint32_t)(unsafe.Pointer(&t.DecB[0])))
	return t
}

// Compose calls hb_unicode_compose with the default funcs.
func Compose(a, b rune) (rune, bool) {
	var ab C.hb_codepoint_t
	ok := C.hb_unicode_compose(C.hb_unicode_funcs_get_default(), C.hb_codepoint_t(a), C.hb_codepoint_t(b), &ab)
	return rune(ab), ok != 0
}
