package main

import "verifharness/internal/props/shape"

func main() { shape.Main("C01") }
