package main

import "verifharness/internal/props/c15"

func main() { c15.Main() }
