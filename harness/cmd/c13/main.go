package main

import "verifharness/internal/props/c13"

func main() { c13.Main() }
