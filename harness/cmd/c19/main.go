package main

import "verifharness/internal/props/c19"

func main() { c19.Main() }
