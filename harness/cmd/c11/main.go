package main

import "verifharness/internal/props/c11"

func main() { c11.Main() }
