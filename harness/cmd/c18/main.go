package main

import "verifharness/internal/props/c18"

func main() { c18.Main() }
