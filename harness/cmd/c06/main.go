package main

import "verifharness/internal/props/c06"

func main() { c06.Main() }
