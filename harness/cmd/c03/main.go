package main

import "verifharness/internal/props/wrap"

func main() { wrap.Main("C03") }
