package main

import "verifharness/internal/props/c17"

func main() { c17.Main() }
