package main

import "verifharness/internal/props/c07"

func main() { c07.Main() }
