package main

import "verifharness/internal/props/c10"

func main() { c10.Main() }
