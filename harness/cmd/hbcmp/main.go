// hbcmp: debugging aid. Shapes the witness of a C01 replay file with the C
// HarfBuzz reference (buffer level) and prints gid/cluster per glyph.
package main

import (
	"fmt"
	"os"

	"verifharness/internal/corpus"
	"verifharness/internal/hbref"
	"verifharness/internal/props/shape"
	"verifharness/internal/vrun"
)

func main() {
	var c shape.Case
	if _, err := vrun.ReadReplay(os.Args[1], &c); err != nil {
		fmt.Println(err)
		os.Exit(2)
	}
	ref, ok := corpus.ParseRef(c.Face)
	if !ok {
		fmt.Println("face?")
		os.Exit(2)
	}
	blob := hbref.NewBlob(ref.File.Bytes())
	face := blob.NewFace(ref.Index)
	font := face.NewFont()
	buf := hbref.NewBuffer()
	// di.Direction -> hb direction: LTR=4 RTL=5 TTB=6 BTT=7
	dir := 4 + int(c.Dir&1)
	if c.Dir&2 != 0 {
		dir = 6 + int(c.Dir&1)
	}
	in := &hbref.Input{Text: c.Text, ItemOffset: c.RunStart, ItemLength: c.RunEnd - c.RunStart, Direction: dir, Script: c.Script, Language: c.Lang, Flags: int(c.Flags), ClusterLevel: int(c.ClusterLevel)}
	res := buf.Shape(font, in)
	fmt.Println("C HarfBuzz", hbref.Version(), "ok:", res.OK)
	for i, g := range res.Glyphs {
		fmt.Printf("  [%d] gid=%d cluster=%d adv=%d,%d off=%d,%d\n", i, g.GID, g.Cluster, g.XAdv, g.YAdv, g.XOff, g.YOff)
	}
}
