package main

import "verifharness/internal/props/c20"

func main() { c20.Main() }
