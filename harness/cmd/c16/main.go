package main

import "verifharness/internal/props/c16"

func main() { c16.Main() }
