package main

import "verifharness/internal/props/c14"

func main() { c14.Main() }
