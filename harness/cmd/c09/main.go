package main

import "verifharness/internal/props/c09"

func main() { c09.Main() }
