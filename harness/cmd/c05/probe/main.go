package main

import (
	"fmt"
	"os"
	"strconv"
	"strings"

	ot "github.com/go-text/typesetting/font/opentype"
	"verifharness/internal/props/c05"
)

// usage: probe font idx dir cl "U+..,U+.." [script]
func main() {
	idx, _ := strconv.Atoi(os.Args[2])
	dir, _ := strconv.Atoi(os.Args[3])
	cl, _ := strconv.Atoi(os.Args[4])
	var text []rune
	for _, s := range strings.Split(os.Args[5], ",") {
		v, _ := strconv.ParseUint(strings.TrimPrefix(s, "U+"), 16, 32)
		text = append(text, rune(v))
	}
	c := c05.Case{Font: os.Args[1], Index: idx, Text: text, Len: -1, Dir: dir, CL: cl, Flags: 3}
	if len(os.Args) > 6 {
		c.Script = os.Args[6]
	}
	var extra []string
	if len(os.Args) > 7 {
		extra = os.Args[7:]
	}
	for _, a := range extra {
		if strings.HasPrefix(a, "item:") {
			q := strings.Split(a, ":")
			c.Off, _ = strconv.Atoi(q[1])
			c.Len, _ = strconv.Atoi(q[2])
			c.Flags, _ = strconv.Atoi(q[3])
			continue
		}
		if strings.HasPrefix(a, "feat:") {
			q := strings.Split(a, ":")
			v, _ := strconv.Atoi(q[2])
			st, _ := strconv.Atoi(q[3])
			en, _ := strconv.Atoi(q[4])
			c.Feats = append(c.Feats, c05.Feat{Tag: q[1], Value: uint32(v), Start: st, End: en})
			continue
		}
		kv := strings.SplitN(a, "=", 2)
		f, _ := strconv.ParseFloat(kv[1], 32)
		c.Vars = append(c.Vars, c05.Var{Tag: kv[0], Value: float32(f)})
	}
	p, ok := c05.Open(c.Font, c.Index)
	if !ok {
		fmt.Println("open failed")
		return
	}
	sk := c05.ComputeSkew()
	v := c05.Judge(p, &c, sk)
	fmt.Println(v.Kind, v.Class, v.Key)
	fmt.Println("go:", c05.Fmt(v.Go))
	fmt.Println("C :", c05.Fmt(v.C))
	names := func(gs []c05.G) string {
		var s []string
		for _, g := range gs {
			e, _ := p.CFont.GlyphExtents(g.GID)
			ge, gok := p.GoFont(&c).GlyphExtents(ot.GID(g.GID))
			s = append(s, fmt.Sprintf("%s C%v go%v,%v", p.CFont.GlyphName(g.GID), e, ge, gok))
		}
		return strings.Join(s, " ")
	}
	fmt.Println("go names:", names(v.Go))
	fmt.Println("C  names:", names(v.C))
	fmt.Printf("info: %+v\n", struct {
		K   string
		Mac bool
		Ids []string
	}{p.Info.Kinds(), p.Info.MacOnly, p.Info.CmapIDs})
	for _, r := range text {
		g, ok := p.Go.NominalGlyph(r)
		cg, cok := p.CFont.NominalGlyph(r)
		fmt.Printf("  U+%04X go=%d,%v c=%d,%v\n", r, g, ok, cg, cok)
	}
}

func init() {
	if os.Getenv("DBGINFO") != "" {
		p, _ := c05.Open(os.Getenv("DBGINFO"), 0)
		fmt.Printf("gpos lookups=%d gsub lookups=%d dropped=%v/%v GPOS=%v\n", len(p.Go.GPOS.Lookups), len(p.Go.GSUB.Lookups), p.Info.GoGPOSDropped, p.Info.GoGSUBDropped, p.Info.GPOS)
		os.Exit(0)
	}
}
