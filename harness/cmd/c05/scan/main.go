package main

import (
	"encoding/json"
	"fmt"
	"os"
	"strconv"
	"strings"

	"verifharness/internal/gen"
	"verifharness/internal/props/c05"
)

type rec struct {
	Sig  string   `json:"sig"`
	Key  string   `json:"key"`
	Case c05.Case `json:"case"`
	Msg  string   `json:"msg"`
	FK   string   `json:"fontkind"`
}

func main() {
	k, _ := strconv.Atoi(os.Args[1])
	n, _ := strconv.Atoi(os.Args[2])
	per, _ := strconv.Atoi(os.Args[3])
	seed := int64(1)
	if len(os.Args) > 4 {
		s, _ := strconv.Atoi(os.Args[4])
		seed = int64(s)
	}
	sk := c05.ComputeSkew()
	faces, _ := c05.EligibleFaces()
	enc := json.NewEncoder(os.Stdout)
	for fi := k; fi < len(faces); fi += n {
		id, idx := c05.SplitRef(faces[fi])
		p, ok := c05.Open(id, idx)
		if !ok {
			continue
		}
		for j := 0; j < per; j++ {
			r := gen.New(seed, "C05/case/"+faces[fi], j)
			c := c05.GenCase(r, p, c05.GenOpts{})
			v := c05.Judge(p, &c, sk)
			if v.Kind != "violated" {
				continue
			}
			if strings.HasPrefix(v.Key, "C05/defect/") {
				enc.Encode(rec{Sig: v.Key, Key: v.Key, Case: c, Msg: v.Msg, FK: p.Info.Kinds()})
				continue
			}
			m := c05.Shrink(c, 150, func(d *c05.Case) bool {
				w := c05.Judge(p, d, sk)
				return w.Kind == "violated" && !strings.HasPrefix(w.Key, "C05/defect/")
			})
			mv := c05.Judge(p, &m, sk)
			sig := fmt.Sprintf("%s|%s|dir=%d|cl=%d|flags=%#x|vars=%v|feats=%d|sub=%v", c05.DiffKind(mv.Go, mv.C), mv.Cat, mv.RS.Dir, m.CL, m.Flags, len(m.Vars) > 0, len(m.Feats), m.Off != 0 || m.Len >= 0)
			enc.Encode(rec{Sig: sig, Key: mv.Key, Case: m, Msg: mv.Msg, FK: p.Info.Kinds()})
		}
		p.Close()
	}
}
