package main

import "verifharness/internal/props/c05"

func main() { c05.Main() }
