package main

import (
	"fmt"
	"os"

	"github.com/go-text/typesetting/font/opentype/tables"
	"verifharness/internal/corpus"
)

func main() {
	f := corpus.ByID(os.Args[1])
	fs, _ := f.Fonts()
	ft := fs[0]
	fmt.Println("kern subtables:", len(ft.Kern), "kerx:", len(ft.Kerx))
	for i, feat := range ft.GPOS.Features {
		fmt.Println("GPOS feat", i, feat.Tag, feat.LookupListIndices)
	}
	for _, s := range ft.GPOS.Scripts {
		fmt.Printf("GPOS script %s: ", s.Tag)
		if s.DefaultLangSys != nil {
			fmt.Print("dflt=", s.DefaultLangSys.FeatureIndices, " req=", s.DefaultLangSys.RequiredFeatureIndex)
		}
		for i, l := range s.LangSys {
			fmt.Print(" lang", s.LangSysRecords[i].Tag, "=", l.FeatureIndices)
		}
		fmt.Println()
	}
	g1, _ := ft.NominalGlyph('g')
	g2, _ := ft.NominalGlyph('.')
	for li, lk := range ft.GPOS.Lookups {
		for si, st := range lk.Subtables {
			if pp, ok := st.(tables.PairPos); ok {
				if idx, ok := pp.Data.Cov().Index(tables.GlyphID(g1)); ok {
					switch d := pp.Data.(type) {
					case tables.PairPosData1:
						fmt.Printf("lookup %d/%d PairPos1 covers g idx=%d\n", li, si, idx)
						_ = d
					case tables.PairPosData2:
						c1, _ := d.ClassDef1.Class(tables.GlyphID(g1))
						c2, ok2 := d.ClassDef2.Class(tables.GlyphID(g2))
						fmt.Printf("lookup %d/%d PairPos2 covers g class1=%d class2=%d,%v rec=%+v\n", li, si, c1, c2, ok2, d.Record(c1, c2).ValueRecord1)
					}
				}
			}
		}
	}
	for i, k := range ft.Kern {
		fmt.Printf("kern %d: %T\n", i, k.Data)
		if k0, ok := k.Data.(interface{ KernPair(a, b tables.GlyphID) int16 }); ok {
			fmt.Println("   pair g.:", k0.KernPair(tables.GlyphID(g1), tables.GlyphID(g2)))
		}
	}
}
