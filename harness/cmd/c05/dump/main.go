package main

import (
	"fmt"
	"os"

	"github.com/go-text/typesetting/font/opentype/tables"
	"verifharness/internal/corpus"
)

func main() {
	f := corpus.ByID(os.Args[1])
	fs, _ := f.Fonts()
	ft := fs[0]
	for li, lk := range ft.GPOS.Lookups {
		for si, st := range lk.Subtables {
			switch d := st.(type) {
			case tables.PairPos:
				switch pp := d.Data.(type) {
				case tables.PairPosData2:
					fmt.Printf("lookup %d sub %d PairPos2 flag %x vf %x %x cov=%+v\n", li, si, lk.Flag, pp.ValueFormat1, pp.ValueFormat2, pp.Cov())
					fmt.Printf("  classdef1=%+v\n  classdef2=%+v\n", pp.ClassDef1, pp.ClassDef2)
					for g := 16; g <= 21; g++ {
						_, inCov := pp.Cov().Index(tables.GlyphID(g))
						c1, ok1 := pp.ClassDef1.Class(tables.GlyphID(g))
						c2, ok2 := pp.ClassDef2.Class(tables.GlyphID(g))
						fmt.Printf("  glyph %d cov=%v class1=%d,%v class2=%d,%v\n", g, inCov, c1, ok1, c2, ok2)
					}
					for c1 := uint16(0); c1 < 3; c1++ {
						for c2 := uint16(0); c2 < 3; c2++ {
							func() {
								defer func() { recover() }()
								fmt.Printf("  rec[%d][%d]=%+v\n", c1, c2, pp.Record(c1, c2))
							}()
						}
					}
				}
			}
		}
	}
}
