#!/bin/bash
# tools/mutate.sh <name> <file-in-repo> <python-replace-old> <python-replace-new> <ID> [<ID>...]
# Applies one textual mutation on a scratch worktree of /repo and runs the given checks (quick) against it.
set -u
name="$1"; file="$2"; old="$3"; new="$4"; shift 4
wt="/tmp/wt-mut-$name"
git -C /repo worktree remove --force "$wt" >/dev/null 2>&1
git -C /repo worktree add -q "$wt" HEAD || exit 3
python3 - "$wt/$file" "$old" "$new" <<'PY' || { echo "MUTATION-NOT-APPLIED $name"; git -C /repo worktree remove --force "$wt"; exit 3; }
import sys
p,old,new=sys.argv[1:4]
s=open(p).read()
if s.count(old)<1: sys.exit(1)
open(p,'w').write(s.replace(old,new,1))
PY
( cd "$wt" && GOFLAGS=-mod=mod GOPROXY=off go build ./... ) || { echo "MUTANT-DOES-NOT-COMPILE $name"; git -C /repo worktree remove --force "$wt"; exit 3; }
for id in "$@"; do
  out=$(cd /verif && VERIF_REPO="$wt" ./check "$id" quick 2>&1); rc=$?
  keys=$(echo "$out" | grep -o "key=[^ ]*" | sort -u | tr '\n' ' ')
  echo "MUTANT $name check=$id exit=$rc $keys"
done
git -C /repo worktree remove --force "$wt"; git -C /repo worktree prune
tag="$(echo "$wt" | md5sum | cut -c1-8)"; rm -rf /verif/work/evidence-$tag /verif/work/go-$tag.* /verif/bin/*-$tag
