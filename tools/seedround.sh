#!/bin/bash
# tools/seedround.sh ROUND ID pkgA pkgB check [check...]
# Confirms the two changes a seeding agent left in /tmp/seed<ROUND>-<ID>-out/{A,B} (tools/seedconfirm.sh),
# stores them as /verif/seeded/<ID>-<ROUND>{A,B} and runs the given checks (quick) against each (tools/seedtest.sh).
export GOFLAGS=-mod=mod GOPROXY=off GOSUMDB=off GOTOOLCHAIN=local
round=$1; id=$2; pa=$3; pb=$4; shift 4
for v in A B; do
  pkg=$pa; [ $v = B ] && pkg=$pb
  out=/tmp/seed$round-$id-out/$v
  [ -d "$out" ] || { echo "NO-OUTPUT $id $v"; continue; }
  RACEFLAG="${RACEFLAG:-}" /verif/tools/seedconfirm.sh "$out" "$pkg" "$id-$round$v" 2>&1 | grep "^CONFIRM"
  if [ -d /verif/seeded/$id-$round$v ]; then
    /verif/tools/seedtest.sh /verif/seeded/$id-$round$v "$@" 2>&1 | grep "^SEED"
  fi
done
