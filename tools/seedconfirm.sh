#!/bin/bash
# tools/seedconfirm.sh <seed-dir> <package-dir-for-demo> <dest-id>
# Confirms a seeded change: demo passes on clean HEAD, fails with the patch, the repository's own tests still pass with the patch.
# On success stores patch.diff, demo and meta.json under /verif/seeded/<dest-id>/.
set -u
d="$(readlink -f "$1")"; pkg="$2"; dest="$3"
export GOFLAGS=-mod=mod GOPROXY=off GOSUMDB=off GOTOOLCHAIN=local
wt="/tmp/wt-confirm-$(echo "$d" | md5sum | cut -c1-8)"
git -C /repo worktree remove --force "$wt" >/dev/null 2>&1
git -C /repo worktree add -q "$wt" HEAD || exit 3
demo=$(ls "$d"/demo*_test.go 2>/dev/null | head -1)
[ -n "$demo" ] || { echo "CONFIRM no demo test in $d"; git -C /repo worktree remove --force "$wt"; exit 3; }
cp "$demo" "$wt/$pkg/zz_seed_demo_test.go"
( cd "$wt" && go test ${RACEFLAG:-} -vet=off -count=1 "./$pkg/" >/tmp/confirm-clean.log 2>&1 ); clean=$?
git -C "$wt" apply "$d/patch.diff" || { echo "CONFIRM patch does not apply"; git -C /repo worktree remove --force "$wt"; exit 3; }
( cd "$wt" && go test ${RACEFLAG:-} -vet=off -count=1 "./$pkg/" >/tmp/confirm-patched.log 2>&1 ); patched=$?
rm "$wt/$pkg/zz_seed_demo_test.go"
( cd "$wt" && go test -vet=off -count=1 ./... >/tmp/confirm-suite.log 2>&1 ); suite=$?
echo "CONFIRM $dest demo-on-clean-exit=$clean demo-with-patch-exit=$patched suite-with-patch-exit=$suite"
if [ $clean -eq 0 ] && [ $patched -ne 0 ] && [ $suite -eq 0 ]; then
  mkdir -p "/verif/seeded/$dest"
  cp "$d/patch.diff" "/verif/seeded/$dest/patch.diff"
  cp "$demo" "/verif/seeded/$dest/demo_test.go.txt"
  [ -f "$d/notes.md" ] && cp "$d/notes.md" "/verif/seeded/$dest/notes.md"
  echo "CONFIRMED $dest"
else
  tail -5 /tmp/confirm-clean.log /tmp/confirm-patched.log /tmp/confirm-suite.log
fi
git -C /repo worktree remove --force "$wt"; git -C /repo worktree prune
