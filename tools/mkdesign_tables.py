#!/usr/bin/env python3
"""Rewrites the generated parts of DESIGN.md (between <!-- BEGIN x --> / <!-- END x --> markers):
findings (from known_findings.json) and seeded changes (from seeded/*/meta.json)."""
import json, glob, os, re
V = os.path.dirname(os.path.dirname(os.path.abspath(__file__)))
d = open(os.path.join(V, 'DESIGN.md')).read()
kf = json.load(open(os.path.join(V, 'known_findings.json')))['findings']

def block(name, text):
    global d
    b, e = f'<!-- BEGIN {name} -->', f'<!-- END {name} -->'
    if b not in d:
        d += f'\n{b}\n{e}\n'
    d = re.sub(re.escape(b) + r'.*?' + re.escape(e), lambda m: b + '\n' + text + '\n' + e, d, flags=re.S)

rows = ['| property | finding id | status | commit | what failed (witness) |', '|---|---|---|---|---|']
for f in sorted(kf, key=lambda f: (f['property'], f['status'] != 'open', f['id'])):
    rows.append(f"| {f['property']} | {f['id']} | {f['status']} | {f.get('commit','') or '-'} | {f['description'].replace('|','/')} |")
block('FINDINGS', '\n'.join(rows))

rows = ['| seed | property | change | needs to manifest | checks run -> outcome |', '|---|---|---|---|---|']
for p in sorted(glob.glob(os.path.join(V, 'seeded', '*', 'meta.json'))):
    m = json.load(open(p))
    runs = '; '.join(f"{k}: {v}" for k, v in m['checks_run'].items())
    rows.append(f"| {os.path.basename(os.path.dirname(p))} | {m['breaks_property']} | {m['change'].replace('|','/')} | {m['needs_to_manifest'].replace('|','/')} | {runs.replace('|','/')} |")
block('SEEDS', '\n'.join(rows))
open(os.path.join(V, 'DESIGN.md'), 'w').write(d)
print('DESIGN tables updated:', len(kf), 'findings,', len(glob.glob(os.path.join(V, 'seeded', '*', 'meta.json'))), 'seeds')
