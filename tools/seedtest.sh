#!/bin/bash
# tools/seedtest.sh <dir-with-patch.diff> <ID> [<ID>...]
# Applies a seeded change on a scratch worktree of /repo's HEAD, rebuilds and runs the given checks (quick) against it.
set -u
d="$(readlink -f "$1")"; shift
name="$(echo "$d" | md5sum | cut -c1-8)"
wt="/tmp/wt-seed-$name"
git -C /repo worktree remove --force "$wt" >/dev/null 2>&1
git -C /repo worktree add -q "$wt" HEAD || exit 3
if ! git -C "$wt" apply "$d/patch.diff"; then echo "SEED patch does not apply: $d"; git -C /repo worktree remove --force "$wt"; exit 3; fi
( cd "$wt" && GOFLAGS=-mod=mod GOPROXY=off go build ./... ) || { echo "SEED does not compile: $d"; git -C /repo worktree remove --force "$wt"; exit 3; }
for id in "$@"; do
  out=$(cd /verif && VERIF_REPO="$wt" VERIF_SEED="${VERIF_SEED:-1}" ./check "$id" "${TIER:-quick}" 2>&1); rc=$?
  keys=$(echo "$out" | grep -o "key=[^ ]*" | sort -u | tr '\n' ' ')
  echo "SEED $(basename "$(dirname "$d")")/$(basename "$d") check=$id tier=${TIER:-quick} exit=$rc $keys"
done
git -C /repo worktree remove --force "$wt"; git -C /repo worktree prune
tag="$(echo "$wt" | md5sum | cut -c1-8)"; rm -rf /verif/work/evidence-$tag /verif/work/go-$tag.* /verif/bin/*-$tag
