#!/usr/bin/env python3
"""Regenerates /verif/MANIFEST.json from the table below and validates it.
Run: python3-vt tools/mkmanifest.py"""
import json, os, subprocess, sys
V = os.path.dirname(os.path.dirname(os.path.abspath(__file__)))
props = [json.loads(l) for l in open(os.path.join(V, 'properties.jsonl'))]
ids = [p['id'] for p in props]

# id -> (category, technique, level text, level note, design ref)
CHECKS = {}
def chk(id, cat, technique, text, note, ref):
    CHECKS[id] = dict(cat=cat, technique=technique, text=text, note=note, ref=ref)

exec(open(os.path.join(V, 'tools', 'checks_table.py')).read())

hook_commits = subprocess.run(['git', '-C', '/repo', 'log', '--format=%h %s', '--grep=^verif hook'],
                              capture_output=True, text=True).stdout.strip().splitlines()
m = {
    "version": 1,
    "setup_cmd": "./setup.sh",
    "hooks": {
        "guard": "verif",
        "enable": "go build -tags verif in /verif/harness, whose go.mod replaces github.com/go-text/typesetting => /repo (so every build compiles /repo's working tree with the hooks on)",
        "baseline_off_cmd": "cd /repo && GOFLAGS=-mod=mod GOPROXY=off GOSUMDB=off go test -vet=off -count=1 -timeout 25m ./...",
        "source_commits": hook_commits,
        "add_only": True,
    },
    "engines": [
        {"name": "vrun", "path": "harness/internal/vrun", "serves_properties": sorted(CHECKS),
         "kind_free_text": "shared monitor runtime: deterministic case streams, worker pool / child processes with journal + CPU and allocation meters, evidence accounting, known-findings protocol, replay files"},
    ],
    "checks": [],
    "notes": "Each check is ./check <ID> <tier>: rebuilds harness/cmd/<id> against /repo's working tree (tag verif) and runs the monitor. Exit 2 = could not build. See DESIGN.md.",
    "not_applicable": [],
}
for id in ids:
    if id in CHECKS:
        c = CHECKS[id]
        m["checks"].append({
            "property_id": id,
            "quick_cmd": f"./check {id} quick",
            "thorough_cmd": f"./check {id} thorough",
            "evidence_file": f"evidence/{id}.json",
            "replay_cmd_template": f"./check {id} quick --replay {{path}}",
            "engine": "vrun",
            "level_claimed": {"category": c['cat'], "text": c['text'], "design_ref": c['ref']},
            "level_note": c['note'],
            "technique": c['technique'],
        })
    else:
        m["not_applicable"].append({"property_id": id, "reason": NOT_YET.get(id, "monitor not built yet (work in progress; DESIGN.md section 11)")})
json.dump(m, open(os.path.join(V, 'MANIFEST.json'), 'w'), indent=1)
try:
    import jsonschema  # present in the tooling venv (python3-vt)
    jsonschema.validate(m, json.load(open('/root/.vp/MANIFEST.schema.json')))
except ImportError:
    print("jsonschema not importable with this interpreter: run with python3-vt to validate")
print("MANIFEST ok:", len(m["checks"]), "checks,", len(m["not_applicable"]), "not_applicable")
