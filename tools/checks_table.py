NOT_YET = {}

chk("C19", "exploration", "runtime monitor: independent sfnt reader + canary-guarded caller buffers over generated table lists",
    "WriteTTF is driven with exhaustively enumerated small table lists (every length residue, every spare capacity), random lists up to 40 tables / 4096 bytes and every corpus font's own tables; each output is judged by an independent directory reader (header arithmetic, order, offsets, lengths, checksums, bodies), re-read through opentype.NewLoader, and the caller's backing arrays are compared byte for byte against canaries. Held on what was observed, not a proof.",
    "trusted: the 40-line reference reader in harness/internal/props/c19; input precondition (distinct tags, ascending) as documented",
    "DESIGN.md §6 C19")

_WRAP_NOTE = "trusted: segmenter.Segmenter as the source of break opportunities (C06 checks it); generated inputs satisfy C01's laws by construction; oracle code in harness/internal/props/wrap/oracle.go; wrapper mutations of the caller's runs are recorded, not judged"
chk("C02", "exploration", "runtime monitor: conservation oracle (rune chain, glyph identity, advance sum, logical-step termination clock) over exhaustive small scopes + random + real shaped paragraphs",
    "The real LineWrapper (WrapParagraph and Prepare/WrapNextLine, slice iterator and a counting iterator that is the logical clock) is driven over every text of length<=3 (4 in thorough) x cluster partitions x run splits x directions x widths x policies x truncation, ~300k (6M) random paragraphs and 6k (200k) real multi-script paragraphs; each returned line set is checked for contiguous rune coverage, exact glyph conservation against a deep copy of the input (only the two documented edits allowed), Advance == sum, non-empty lines, and termination by step count. Held on what was observed.",
    _WRAP_NOTE, "DESIGN.md §6 C02")
chk("C03", "exploration", "runtime monitor: membership of every line end in the permitted-break sets (UAX#14/UAX#29 from the segmenter, cluster starts from the input), mandatory-break and WhenNecessary laws, on the C02 workload",
    "Same executions as C02; every line end is checked against the sets computed independently from the paragraph (line-break opportunities, mandatory breaks, grapheme boundaries, cluster starts), per break policy, plus the mandatory-break law and the WhenNecessary word-split law with a reference width measure.",
    _WRAP_NOTE, "DESIGN.md §6 C03")
chk("C04", "exploration", "runtime monitor: reference width measure (all readings of the trailing-space/letter-spacing discount), width bound with single-unit exemption, greedy-fill law, truncation contract, exhaustive width sweep",
    "Same executions as C02; a line is reported over-wide only if it exceeds the limit under the most lenient reading of the statement's measure and holds more than one unbreakable unit; not greedy only if the extension to the next permitted break fits under the strictest reading; truncation contract (line count, truncator presence iff cut or TextContinues, reported range, reduced width) checked with a marker-recognised truncator. Width laws are judged for horizontal text with non-negative advances.",
    _WRAP_NOTE, "DESIGN.md §6 C04")
chk("C08", "exploration", "runtime monitor: rule L2 reference on generator-known embedding levels (exhaustive level sequences), permutation law, trimming-target law; known finding with predicted-behaviour model",
    "Same executions as C02 plus exhaustive level sequences; VisualIndex must be a permutation and equal rule L2 on the true levels; inside the known class (a run at level >= base+2) the output must equal the predicted parity-reduced order, anything else is a violation; the zeroed whitespace glyph must be the visually last content glyph in paragraph direction.",
    _WRAP_NOTE + "; real paragraphs carry levels derived from run directions only", "DESIGN.md §6 C08")
