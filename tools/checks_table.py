NOT_YET = {}

chk("C19", "exploration", "runtime monitor: independent sfnt reader + canary-guarded caller buffers over generated table lists",
    "WriteTTF is driven with exhaustively enumerated small table lists (every length residue, every spare capacity), random lists up to 40 tables / 4096 bytes and every corpus font's own tables; each output is judged by an independent directory reader (header arithmetic, order, offsets, lengths, checksums, bodies), re-read through opentype.NewLoader, and the caller's backing arrays are compared byte for byte against canaries. Held on what was observed, not a proof.",
    "trusted: the 40-line reference reader in harness/internal/props/c19; input precondition (distinct tags, ascending) as documented",
    "DESIGN.md §6 C19")
